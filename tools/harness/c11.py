"""C11: the C format-string parser (lib/strformat/c.py) implements printf(3).

Three parties:
  * the extracted Coq model (ocaml/driver: ops `fmtc`, `ctokens`),
  * the implementation (strformat.c.FormatString, strformat.c._directive_re), imported from common.REPO,
  * an ORACLE that knows neither: `ref_printf`, a table-driven re-statement of printf(3) / C99 7.19.6.1 /
    POSIX numbered arguments / glibc extensions written in this file, plus glibc's own
    parse_printf_format(3) through ctypes.
model vs implementation differences are `disagreements`; oracle verdicts are `failures`."""
import ctypes
import hashlib
import itertools
import json
import os

import common
from common import enc_str
from harness import intexpr_lib as L

TRUSTED = [
    'Coq 8.16.1 kernel (coqc, vm_compute); coqchk in thorough tier',
    'axioms: none (Print Assumptions must report "Closed under the global context" for every theorem of Props/C11.v)',
    'hand-written Gallina model Model/FmtC.v of lib/strformat/c.py (directive regex as a deterministic scanner, '
    'FormatString.__init__, add_argument, Conversion.__init__, get_last_integer_conversion)',
    'Spec/Printf.v: hand-written reading of printf(3) / C99 7.19.6.1 / POSIX %n$ / glibc extensions',
    'Generated/CInfo.v (_info tables, INT_MAX, NL_ARGMAX), regenerated from /repo on every run',
    'source translator tools/gen/gen_fmtc_src.py (python ast -> Gallina, fail-closed subset; rules in its docstring) and its vocabulary '
    'Model/FmtCPy.v (incl. match_of_dir / finditer_of: which regex groups a directive of the model has): Generated/FmtCSrc.v is '
    'trusted to mean what FormatString.add_argument, Conversion.__init__ and FormatString.__init__ mean',
    'extraction (ExtrOcamlBasic only) + ocaml/driver.ml + zarith for decimal I/O',
    'harness reference ref_printf (tools/harness/c11.py): hand-written tokenizer and validity/type tables written from the '
    'printf(3) manual page, independent of the model and of c.py',
    'glibc parse_printf_format(3) of the running libc (argument count; coarse argument classes)',
    'the `re` engine is modelled (greedy scanner with the two explicit backtracking points), not verified: the scanner is '
    'compared with _directive_re.finditer on every string of length <= 4 (quick) / <= 5 (thorough) over 14 characters',
]
ASSUME = [
    'NL_ARGMAX = 4096 and INT_MAX = 2^31-1 as on GNU/Linux (the constants of c.py; test_NL_ARGMAX / test_INT_MAX in /repo pin them)',
    'type names are the spellings of the printf(3) manual page; `%c` is reported as "char" (distinct from "int" on purpose, see c.py)',
    '`%m` consumes no argument and is exempt from the numbered/unnumbered rule; an index on `%m` is range-checked and otherwise ignored',
    'sys.get_int_max_str_digits() is whatever `import lib` leaves (0 on the current tree); it is passed to the model, never changed here',
    'glibc comparison only on strings the implementation accepts, pure ASCII, no NUL, no indexed %m; argument classes of '
    '`q`/`L` integer conversions and of `%lc`/`%ls` are not compared (parse_printf_format reports PA_INT resp. PA_CHAR/PA_STRING '
    'for them on LP64, irrespective of the modifier)',
]

# sha256 of _directive_re.pattern at the time the scanner model was written
RE_FINGERPRINT = '7dbb0b87a4eb06d14dd37266379468e7afc097eeb5f7f7e1fe8764a4fdb9d0e0'

ALPHABET = ['%', '$', '*', '.', '1', '0', 'd', 's', 'h', 'l', '<', 'P', ' ', 'x']

# ======================================================================= implementation side
_M = None


def _mod():
    global _M
    if _M is None:
        common.ensure_path()
        from lib.strformat import c as M
        _M = M
    return _M


def _opt_idx(g):
    return '-' if g is None else enc_str(g.rstrip('$'))


def impl_ctokens(s):
    """_directive_re.finditer(s) in the driver's `ctokens` format"""
    M = _mod()
    out = []
    last = 0
    try:
        for m in M._directive_re.finditer(s):
            if m.start() != last:
                break
            last = m.end()
            lit = m.group('literal')
            if lit is not None:
                out.append('L:' + enc_str(lit))
                continue
            if m.group('width') is not None:
                w = 'd' + enc_str(m.group('width'))
            elif m.group('varwidth'):
                w = '*' + _opt_idx(m.group('varwidth_index'))
            else:
                w = 'n'
            if m.group('precision') is not None:
                p = 'd' + enc_str(m.group('precision'))
            elif m.group('varprec'):
                p = '*' + _opt_idx(m.group('varprec_index'))
            else:
                p = 'n'
            if m.group('c99conv') is not None:
                body = 'M:%d:%s' % (ord(m.group('c99conv')), enc_str(m.group('c99len')))
            else:
                body = 'S:%s:%d' % (enc_str(m.group('length') or ''), ord(m.group('conversion')))
            out.append('D:%s:%s:%s:%s:%s:%s' % (enc_str(m.group(0)), _opt_idx(m.group('index')), enc_str(m.group('flags')), w, p, body))
        if last != len(s):
            out.append('B:' + enc_str(s[last:]))
    except common.CaseTimeout:
        raise
    except Exception as e:  # noqa
        return 'crash ' + type(e).__name__
    return ' '.join(out)


def _err_s(e):
    name = type(e).__name__
    parts = [name]
    for i, a in enumerate(e.args):
        if isinstance(a, (frozenset, set)):
            try:
                parts.append(';'.join(enc_str(x) for x in sorted(a)))
            except TypeError:
                parts.append('?set')
        elif isinstance(a, bool):
            parts.append(repr(a))
        elif isinstance(a, int):
            parts.append(L.int_to_dec(a))
        elif isinstance(a, str):
            parts.append("'" + a + "'" if (name == 'ArgumentRangeError' and i == 1) else enc_str(a))
        else:
            parts.append('?' + type(a).__name__)
    return ' '.join(parts)


def _fs_s(M, fs):
    items = list(fs)
    ids = {id(it): k for k, it in enumerate(items) if not isinstance(it, str)}

    def cid(x):
        k = ids.get(id(x))
        return '?' if k is None else str(k)
    its = []
    for it in items:
        if isinstance(it, str):
            its.append('L:' + enc_str(it))
        else:
            its.append('C:%s:%s:%d' % (enc_str(it._s), enc_str(it.type), 1 if it.integer else 0))
    args = []
    for group in fs.arguments:
        ent = []
        for a in group:
            if isinstance(a, M.VariableWidth):
                ent.append('W%s:%s' % (cid(a.parent), enc_str(a.type)))
            elif isinstance(a, M.VariablePrecision):
                ent.append('P%s:%s' % (cid(a.parent), enc_str(a.type)))
            elif isinstance(a, M.Conversion):
                ent.append('V%s:%s' % (cid(a), enc_str(a.type)))
            else:
                ent.append('?' + type(a).__name__)
        args.append('+'.join(ent))
    warns = []
    for w in fs.warnings:
        if isinstance(w, M.NonPortableConversion) and len(w.args) == 3:
            warns.append('N:%s:%s:%s' % tuple(enc_str(x) for x in w.args))
        elif isinstance(w, M.RedundantFlag) and w.args:
            warns.append('R:%s:%s' % (enc_str(w.args[0]), enc_str(''.join(w.args[1:]))))
        else:
            warns.append('?:' + type(w).__name__)
    g = []
    for k in range(len(fs.arguments) + 2):
        try:
            r = fs.get_last_integer_conversion(n=k)
        except IndexError:
            g.append('E')
            continue
        g.append('-' if r is None else cid(r))
    return 'ok I=%s A=%s W=%s G=%s' % ('|'.join(its), '|'.join(args), '|'.join(warns), ','.join(g))


def impl_fmtc(s):
    """strformat.c.FormatString(s) in the driver's `fmtc` format"""
    M = _mod()
    try:
        fs = M.FormatString(s)
    except common.CaseTimeout:
        raise
    except M.Error as e:
        try:
            return 'err ' + _err_s(e)
        except common.CaseTimeout:
            raise
        except Exception as e2:  # noqa
            return 'err ?unprintable ' + type(e2).__name__
    except Exception as e:  # noqa
        return 'crash ' + type(e).__name__
    try:
        return _fs_s(M, fs)
    except common.CaseTimeout:
        raise
    except Exception as e:  # noqa
        return 'crash-after-accept ' + type(e).__name__


# ======================================================================= the reference: printf(3) restated
# Sources: printf(3) (Linux man-pages: "Format of the format string", "Flag characters", "Field width", "Precision",
# "Length modifier", "Conversion specifiers"), C99 7.19.6.1 paragraphs 4-9, POSIX fprintf() (%n$, *m$, NL_ARGMAX,
# "the results of mixing numbered and unnumbered argument specifications are undefined", "%%" takes no argument and
# "the complete conversion specification shall be %%"), <inttypes.h> PRI macros in gettext's <PRIxN> notation.
R_INT_MAX = 2 ** 31 - 1
R_NL_ARGMAX = 4096
R_DIGITS = '0123456789'
R_NONZERO = '123456789'
R_FLAGS = "-+ #0'I"
R_CONVS = 'diouxXeEfFgGaAcsCSpnm%'
R_LEN2 = ('hh', 'll')
R_LEN1 = 'hlqjzZtL'
_ALL = set(R_CONVS)
_NOT_N_PCT = _ALL - {'n', '%'}
# flag -> conversions on which it has defined behaviour
R_FLAG_OK = {
    '#': set('oxXaAeEfFgG') | {'m'},  # C99: "For other conversions, the behavior is undefined."; glibc >= 2.35, printf(3):
                                      # m prints "strerrorname_np(errno) in the alternate form" (finding D15: c.py rejects %#m)
    '0': set('diouxXaAeEfFgG'),     # C99: d i o u x X a A e E f F g G; "For other conversions, the behavior is undefined."
    "'": set('diufFgG'),            # SUSv2: decimal conversions i d u f F g G; otherwise undefined
    '-': _NOT_N_PCT,
    '+': _NOT_N_PCT,
    ' ': _NOT_N_PCT,
    'I': _NOT_N_PCT,
}
R_WIDTH_OK = _NOT_N_PCT            # %n stores, %% is complete as "%%"
R_PREC_OK = set('diouxXaAeEfFgGsS')  # C99 7.19.6.1p4: "with any other conversion specifier, the behavior is undefined"
R_INT_LEN = {
    '': ('int', 'unsigned int'),
    'hh': ('signed char', 'unsigned char'),
    'h': ('short int', 'unsigned short int'),
    'l': ('long int', 'unsigned long int'),
    'll': ('long long int', 'unsigned long long int'),
    'j': ('intmax_t', 'uintmax_t'),
    'z': ('ssize_t', 'size_t'),
    't': ('ptrdiff_t', '[unsigned ptrdiff_t]'),
}
R_GLIBC_LEN = {'q': 'll', 'L': 'll', 'Z': 'z'}   # glibc: q = ll (BSD), L on integers = ll, Z = z (libc5)


def _build_types():
    t = {}
    for ln in list(R_INT_LEN) + list(R_GLIBC_LEN):
        sg, us = R_INT_LEN[R_GLIBC_LEN.get(ln, ln)]
        for c in 'di':
            t[(ln, c)] = sg
        for c in 'ouxX':
            t[(ln, c)] = us
        t[(ln, 'n')] = sg + ' *'
    for c in 'aAeEfFgG':
        t[('', c)] = 'double'
        t[('l', c)] = 'double'           # C99: l "has no effect on a following a, A, e, E, f, F, g, or G"
        t[('L', c)] = 'long double'
    t[('', 'c')] = 'char'
    t[('l', 'c')] = 'wint_t'
    t[('', 'C')] = 'wint_t'              # "(Not in C99, but in SUSv2.) Synonym for lc."
    t[('', 's')] = 'const char *'
    t[('l', 's')] = 'const wchar_t *'
    t[('', 'S')] = 'const wchar_t *'     # synonym for ls
    t[('', 'p')] = 'void *'
    t[('', 'm')] = None                  # glibc: strerror(errno), "No argument is required."
    t[('', '%')] = None
    return t


def _build_macros():
    m = {}
    for c in 'diouxX':
        u = '' if c in 'di' else 'u'
        for n in (8, 16, 32, 64):
            m['PRI%s%d' % (c, n)] = (c, '%sint%d_t' % (u, n))
            m['PRI%sLEAST%d' % (c, n)] = (c, '%sint_least%d_t' % (u, n))
            m['PRI%sFAST%d' % (c, n)] = (c, '%sint_fast%d_t' % (u, n))
        m['PRI%sMAX' % c] = (c, u + 'intmax_t')
        m['PRI%sPTR' % c] = (c, u + 'intptr_t')
    return m


R_TYPE = _build_types()
R_MACRO = _build_macros()


def _capped(ds, cap):
    """value of a run of ASCII digits, or cap+1 when larger (never calls int() on a long run)"""
    t = ds.lstrip('0')
    if len(t) > len(str(cap)):
        return cap + 1
    return min(int(t or '0'), cap + 1)


def _digits(s, i):
    j = i
    n = len(s)
    while j < n and s[j] in R_DIGITS:
        j += 1
    return j


def ref_tokenize(s):
    """hand-written scanner for
         % [n$] flags* [width | * [n$]] [. [digits] | . * [n$]] ( [length] conversion | <PRI..> )
    -> list of ('lit', text) / ('dir', dict), or None when some '%' does not start a conversion specification"""
    out = []
    i = 0
    n = len(s)
    while i < n:
        if s[i] != '%':
            j = s.find('%', i)
            if j < 0:
                j = n
            out.append(('lit', s[i:j]))
            i = j
            continue
        start = i
        i += 1
        d = {'index': None, 'flags': '', 'width': None, 'prec': None, 'length': '', 'conv': None, 'macro': None}
        j = _digits(s, i)
        if j > i and j < n and s[j] == '$':
            d['index'] = s[i:j]
            i = j + 1
        j = i
        while j < n and s[j] in R_FLAGS:
            j += 1
        d['flags'] = s[i:j]
        i = j
        if i < n and s[i] in R_NONZERO:
            j = _digits(s, i)
            d['width'] = ('num', s[i:j])
            i = j
        elif i < n and s[i] == '*':
            i += 1
            j = _digits(s, i)
            if j > i and j < n and s[j] == '$':
                d['width'] = ('arg', s[i:j])
                i = j + 1
            else:
                d['width'] = ('arg', None)
        if i < n and s[i] == '.':
            i += 1
            if i < n and s[i] == '*':
                i += 1
                j = _digits(s, i)
                if j > i and j < n and s[j] == '$':
                    d['prec'] = ('arg', s[i:j])
                    i = j + 1
                else:
                    d['prec'] = ('arg', None)
            else:
                j = _digits(s, i)
                d['prec'] = ('num', s[i:j])   # "." alone: precision zero
                i = j
        d['head'] = s[start:i]
        if i < n and s[i] == '<':
            k = s.find('>', i)
            if k < 0 or s[i + 1:k] not in R_MACRO:
                return None
            d['macro'] = s[i + 1:k]
            d['conv'] = R_MACRO[d['macro']][0]
            i = k + 1
        else:
            if s[i:i + 2] in R_LEN2:
                d['length'] = s[i:i + 2]
                i += 2
            elif i < n and s[i] in R_LEN1:
                d['length'] = s[i]
                i += 1
            if i < n and s[i] in R_CONVS:
                d['conv'] = s[i]
                i += 1
            else:
                return None
        d['text'] = s[start:i]
        out.append(('dir', d))
    return out


def ref_printf(s):
    """('ok', [type of argument 1, 2, ...], [origins per argument], toks) or ('invalid', reason)"""
    toks = ref_tokenize(s)
    if toks is None:
        return ('invalid', 'a "%" that does not start a conversion specification')
    numbered = {}
    unnumbered = []
    for kind, d in toks:
        if kind != 'dir':
            continue
        cv = d['conv']
        if d['macro'] is not None:
            tp = R_MACRO[d['macro']][1]
            origin = ('macro', d['macro'])
        else:
            if (d['length'], cv) not in R_TYPE:
                return ('invalid', 'length modifier %r undefined for %%%s in %r' % (d['length'], cv, d['text']))
            tp = R_TYPE[(d['length'], cv)]
            origin = ('std', d['length'], cv)
        for f in d['flags']:
            if cv not in R_FLAG_OK[f]:
                return ('invalid', 'flag %r undefined for %%%s in %r' % (f, cv, d['text'][:40]))
        refs = []
        for what, ok in (('width', R_WIDTH_OK), ('prec', R_PREC_OK)):
            v = d[what]
            if v is None:
                continue
            if cv not in ok:
                return ('invalid', '%s not allowed for %%%s in %r' % (what, cv, d['text'][:40]))
            if v[0] == 'num':
                if _capped(v[1], R_INT_MAX) > R_INT_MAX:
                    return ('invalid', '%s exceeds INT_MAX in %r' % (what, d['text'][:40]))
            else:
                k = None
                if v[1] is not None:
                    k = _capped(v[1], R_NL_ARGMAX)
                    if not 1 <= k <= R_NL_ARGMAX:
                        return ('invalid', '*%s$ outside 1..NL_ARGMAX in %r' % (v[1][:20], d['text'][:40]))
                refs.append((k, 'int', ('star', what)))
        idx = None
        if d['index'] is not None:
            if cv == '%':
                return ('invalid', '%% takes no argument number')
            idx = _capped(d['index'], R_NL_ARGMAX)
            if not 1 <= idx <= R_NL_ARGMAX:
                return ('invalid', 'argument number outside 1..NL_ARGMAX in %r' % d['text'][:40])
        if tp is not None:
            refs.append((idx, tp, origin))
        for k, t, o in refs:
            if k is None:
                unnumbered.append((t, o))
            else:
                numbered.setdefault(k, []).append((t, o))
    if numbered and unnumbered:
        return ('invalid', 'numbered and unnumbered argument specifications mixed')
    if unnumbered:
        if len(unnumbered) > R_NL_ARGMAX:
            return ('invalid', 'more than NL_ARGMAX arguments')
        return ('ok', [t for t, _ in unnumbered], [[o] for _, o in unnumbered], toks)
    types = []
    origins = []
    for k in range(1, len(numbered) + 1):
        if k not in numbered:
            return ('invalid', 'argument %d is never referenced although a larger number is' % k)
        ts = sorted({t for t, _ in numbered[k]})
        if len(ts) > 1:
            return ('invalid', 'argument %d used with types %s' % (k, ts))
        types.append(ts[0])
        origins.append([o for _, o in numbered[k]])
    return ('ok', types, origins, toks)


# ----------------------------------------------------------------------- glibc
PA_INT, PA_CHAR, PA_WCHAR, PA_STRING, PA_WSTRING, PA_POINTER, PA_FLOAT, PA_DOUBLE = range(8)
PA_FLAG_LONG_LONG = 1 << 8     # = PA_FLAG_LONG_DOUBLE
PA_FLAG_LONG = 1 << 9
PA_FLAG_SHORT = 1 << 10
PA_FLAG_PTR = 1 << 11
_LIBC = None
LP64 = ctypes.sizeof(ctypes.c_long) == 8 and ctypes.sizeof(ctypes.c_longlong) == 8


def _libc():
    global _LIBC
    if _LIBC is None:
        try:
            lib = ctypes.CDLL('libc.so.6')
            f = lib.parse_printf_format
            f.restype = ctypes.c_size_t
            f.argtypes = [ctypes.c_char_p, ctypes.c_size_t, ctypes.POINTER(ctypes.c_int)]
            _LIBC = f
        except (OSError, AttributeError):
            _LIBC = False
    return _LIBC


# this platform's <inttypes.h>, by size (x86_64 glibc).  glibc itself spells PRId8/PRId16 as "d" because of the default
# argument promotions; hh/h name the same argument and let the size class be compared.
_PLAT_LEN = {'8': 'hh', '16': 'h', '32': '', '64': 'l', 'LEAST8': 'hh', 'LEAST16': 'h', 'LEAST32': '', 'LEAST64': 'l',
             'FAST8': 'hh', 'FAST16': 'l', 'FAST32': 'l', 'FAST64': 'l', 'MAX': 'j', 'PTR': 'l'}
_LEN_CLASS = {'hh': 'char', 'h': 'short', '': 'int', 'l': 'long', 'j': 'long'}


def _type_class(tp):
    """coarse class glibc would report on LP64 for an argument of the implementation's type name"""
    if tp.endswith(' *') and tp not in ('const char *', 'const wchar_t *', 'void *'):
        return 'nptr'
    table = {
        'int': 'int', 'unsigned int': 'int',
        'signed char': 'char', 'unsigned char': 'char', 'char': 'char',
        'short int': 'short', 'unsigned short int': 'short',
        'long int': 'long', 'unsigned long int': 'long', 'long long int': 'long', 'unsigned long long int': 'long',
        'intmax_t': 'long', 'uintmax_t': 'long', 'ssize_t': 'long', 'size_t': 'long',
        'ptrdiff_t': 'long', '[unsigned ptrdiff_t]': 'long', 'intptr_t': 'long', 'uintptr_t': 'long',
        'wint_t': 'wchar', 'const char *': 'string', 'const wchar_t *': 'wstring', 'void *': 'pointer',
        'double': 'double', 'long double': 'ldouble',
    }
    if tp in table:
        return table[tp]
    t = tp[1:] if tp.startswith('u') else tp
    if t.startswith('int') and t.endswith('_t'):
        mid = t[3:-2].lstrip('_').upper()       # '32', 'LEAST8', 'FAST16'
        if mid in _PLAT_LEN:
            return _LEN_CLASS[_PLAT_LEN[mid]]
    return '?' + tp


def _glibc_class(v):
    base = v & 0xff
    if v & PA_FLAG_PTR:
        return 'nptr'
    if base == PA_INT:
        if v & PA_FLAG_LONG_LONG:
            return 'long' if LP64 else 'llong'
        if v & PA_FLAG_LONG:
            return 'long'
        if v & PA_FLAG_SHORT:
            return 'short'
        return 'int'
    if base == PA_DOUBLE:
        return 'ldouble' if v & PA_FLAG_LONG_LONG else 'double'
    return {PA_CHAR: 'char', PA_WCHAR: 'wchar', PA_STRING: 'string', PA_WSTRING: 'wstring', PA_POINTER: 'pointer',
            PA_FLOAT: 'float'}.get(base, '?%#x' % v)


def _glibc_skip_type(origins):
    """argument classes glibc's parse_printf_format does not report faithfully (checked empirically on glibc 2.36):
       q / L before an integer conversion -> PA_INT without size flag on LP64; %lc -> PA_CHAR, %ls -> PA_STRING."""
    for o in origins:
        if o[0] == 'std':
            if o[1] in ('q', 'L') and o[2] in 'diouxX':
                return True
            if o[1] == 'l' and o[2] in 'cs':
                return True
    return False


def glibc_check(s, impl_types, ref):
    """-> (status, problem or None).  status: 'compared', 'count-only', or 'skip:<why>'"""
    f = _libc()
    if not f:
        return 'skip:no-glibc', None
    if any(ord(c) > 126 or ord(c) == 0 for c in s):
        return 'skip:non-ascii-or-nul', None     # multibyte handling of the template depends on the locale; NUL ends a C string
    if ref[0] != 'ok':
        return 'skip:reference-rejects', None    # already an acceptance failure
    toks = ref[3]
    parts = []
    for kind, d in toks:
        if kind == 'lit':
            parts.append(d)
            continue
        if d['conv'] == 'm' and d['index'] is not None:
            return 'skip:indexed-%m', None       # glibc counts the position of "%5$m" as an argument, printf(3) says none is required
        if d['macro'] is not None:
            parts.append(d['head'] + _PLAT_LEN[d['macro'][4:]] + d['conv'])
        else:
            parts.append(d['text'])
    fmt = ''.join(parts).encode('ascii')
    n = len(impl_types) + 8
    arr = (ctypes.c_int * n)()
    for i in range(n):
        arr[i] = -1
    got = f(fmt, n, arr)
    if got != len(impl_types):
        return 'compared', 'glibc parse_printf_format counts %d arguments, the parser reports %d' % (got, len(impl_types))
    if not LP64 or impl_types != ref[1]:
        return 'count-only', None
    for i, tp in enumerate(impl_types):
        if _glibc_skip_type(ref[2][i]):
            continue
        want = _type_class(tp)
        have = _glibc_class(arr[i])
        if want != have:
            return 'compared', 'argument %d: parser type %r (class %s), glibc reports %#x (class %s)' % (i + 1, tp, want, arr[i], have)
    return 'compared', None


# ----------------------------------------------------------------------- the oracle proper
def oracle_fmtc(s):
    """Decide C11 on the real FormatString for one string, without the model.
    -> (kind or None, description, glibc status, 'accept'/'reject')"""
    M = _mod()
    ref = ref_printf(s)
    try:
        fs = M.FormatString(s)
    except common.CaseTimeout:
        raise
    except M.Error as e:
        if ref[0] == 'ok':
            # D15, structural predicate: FlagError about '#' raised for a directive whose conversion is m
            d15 = (type(e).__name__ == 'FlagError' and len(e.args) == 2 and e.args[1] == '#'
                   and any(k == 'dir' and d['conv'] == 'm' and '#' in d['flags'] and d['text'] == e.args[0] for k, d in ref[3]))
            return ('acceptance', 'rejected with %s%r although printf(3) defines it: arguments %s' % (type(e).__name__, e.args[1:], ref[1][:8]),
                    'n/a', 'reject', 'D15' if d15 else None)
        return (None, None, 'n/a', 'reject')
    except Exception as e:  # noqa
        return ('foreign-exception', 'FormatString raised %s (not a strformat.c.Error); reference: %s' % (type(e).__name__, ref[0] if ref[0] == 'ok' else ref[1]), 'n/a', 'crash')
    try:
        groups = [[a.type for a in args] for args in fs.arguments]
    except Exception as e:  # noqa
        return ('signature', 'arguments unreadable: ' + type(e).__name__, 'n/a', 'accept')
    if ref[0] != 'ok':
        return ('acceptance', 'accepted (arguments %s) although not a defined printf(3) format: %s' % ([g[0] for g in groups[:8] if g], ref[1]), 'n/a', 'accept')
    for i, g in enumerate(groups):
        if len(set(g)) != 1:
            return ('signature', 'argument %d carries types %s' % (i + 1, sorted(set(g))), 'n/a', 'accept')
    got = [g[0] for g in groups]
    problem = None
    if got != ref[1]:
        k = next((i for i in range(min(len(got), len(ref[1]))) if got[i] != ref[1][i]), min(len(got), len(ref[1])))
        problem = ('signature', 'parser reports %d arguments, printf(3) consumes %d; first difference at argument %d: %r vs %r'
                   % (len(got), len(ref[1]), k + 1, got[k] if k < len(got) else None, ref[1][k] if k < len(ref[1]) else None))
    gstat, gprob = glibc_check(s, got, ref)
    if problem:
        return problem + (gstat, 'accept')
    if gprob:
        return ('glibc', gprob, gstat, 'accept')
    return (None, None, gstat, 'accept')


# ======================================================================= generators
FLAG_CHARS = "#0 +'I-"
EXTRA_FLAGS = ['00', '--', '-0-', '0-', ' +', '+ +', "'#0'", '##', 'I-I', "-I'+ 0#", '0#0', "''"]
WIDTHS = ['', '5', '*', '*2$']
PRECS = ['', '.', '.3', '.*', '.*3$']
LENGTHS = ['', 'hh', 'h', 'l', 'll', 'q', 'j', 'z', 'Z', 't', 'L']
CONVS = 'diouxXeEfFgGaAcsCSpnm%'
C99LENS = ['8', '16', '32', '64', 'LEAST8', 'LEAST16', 'LEAST32', 'LEAST64', 'FAST8', 'FAST16', 'FAST32', 'FAST64', 'MAX', 'PTR']
INDEXES = ['', '1$']


def bodies():
    out = [ln + c for ln in LENGTHS for c in CONVS]
    out += ['<PRI%s%s>' % (c, ln) for c in 'diouxX' for ln in C99LENS]
    return out


def flag_subsets():
    out = []
    for k in range(len(FLAG_CHARS) + 1):
        for comb in itertools.combinations(FLAG_CHARS, k):
            out.append(''.join(comb))
    return out


def directive_variants(idx, fl, w, p, body):
    """the directive as specified, plus dense renumberings of its numbered references so that some are accepted"""
    out = ['%' + idx + fl + w + p + body]
    if idx:
        stars = [x for x in (w, p) if x.startswith('*') and x.endswith('$') or x.startswith('.*') and x.endswith('$')]
        if stars:
            k = len(stars) + 1
            # ascending: value 1, stars 2..k ; rotated: value k, stars 1..k-1
            for nums in ([1] + list(range(2, k + 1)), [k] + list(range(1, k))):
                it = iter(nums[1:])
                w2 = '*%d$' % next(it) if w.endswith('$') else w
                p2 = '.*%d$' % next(it) if p.endswith('$') else p
                v = '%' + ('%d$' % nums[0]) + fl + w2 + p2 + body
                if v not in out:
                    out.append(v)
    return out


def gen_single(ctx):
    """2(a): component-exhaustive single directives (generator of (string, origin))"""
    bs = bodies()
    subsets = flag_subsets()
    small = [f for f in subsets if len(f) <= 1]
    big = [f for f in subsets if len(f) > 1] + EXTRA_FLAGS
    for fl in small:
        for idx in INDEXES:
            for w in WIDTHS:
                for p in PRECS:
                    for b in bs:
                        for v in directive_variants(idx, fl, w, p, b):
                            yield v, 'single<=1flag'
    if ctx.quick():
        rng = ctx.rng
        for _ in range(33000):
            for v in directive_variants(rng.choice(INDEXES), rng.choice(big), rng.choice(WIDTHS), rng.choice(PRECS), rng.choice(bs)):
                yield v, 'single-sample'
    else:
        for fl in big:
            for idx in INDEXES:
                for w in WIDTHS:
                    for p in PRECS:
                        for b in bs:
                            for v in directive_variants(idx, fl, w, p, b):
                                yield v, 'single-all'


POOL = [
    '%d', '%s', '%c', '%ld', '%lu', '%hhx', '%f', '%Lg', '%p', '%n', '%ls', '%lc', '%C', '%S', '%zu', '%jd', '%i', '%u',
    '%<PRId32>', '%<PRIuMAX>', '%*d', '%.*s', '%*.*f', '%-5.3d', "%'d", '%qd', '%m', '%%', '%5m', '%#x', '%05.1f',
    '%1$d', '%2$s', '%1$s', '%2$d', '%3$c', '%1$ld', '%2$*1$d', '%1$*2$d', '%3$*1$.*2$f', '%1$.*2$s', '%2$<PRIx64>',
    '%1$<PRId32>', '%3$n', '%1$m', '%2$lu', '%1$u', '%3$p', '%1$i', '%2$*3$d',
]
SEPS = ['', ' ', 'abc', '%%', '%m', '\n', 'é', ' %% x', '100%% ', '\U0010ffff', '%m: ', '\x00', ', ', '<PRId32>', '$']


def gen_multi(ctx):
    rng = ctx.rng
    for a in POOL:
        for b in POOL:
            yield a + b, 'pair'
            yield rng.choice(SEPS) + a + rng.choice(SEPS[1:]) + b + rng.choice(SEPS), 'pair-sep'
    if ctx.quick():
        for _ in range(15000):
            a, b, c = rng.choice(POOL), rng.choice(POOL), rng.choice(POOL)
            yield a + rng.choice(SEPS) + b + rng.choice(SEPS) + c, 'triple-sample'
    else:
        for a in POOL:
            for b in POOL:
                for c in POOL:
                    yield a + rng.choice(SEPS) + b + rng.choice(SEPS) + c, 'triple'


BOUNDARY_VALUES = ['0', '1', '4095', '4096', '4097', str(2 ** 31 - 2), str(2 ** 31 - 1), str(2 ** 31), str(2 ** 31 + 1),
                   str(10 ** 20), '0' * 50 + '1', '1' * 5000, '0' * 50 + '4096', '0' * 50 + '4097', '0' * 40 + str(2 ** 31 - 1),
                   '0' * 40 + str(2 ** 31)]
BOUNDARY_TEMPLATES = [
    '%{v}$d', '%*{v}$d', '%.*{v}$d', '%{v}d', '%.{v}d', '%{v}s', '%.{v}s', '%{v}$s', '%1$*{v}$d', '%{v}$*1$d', '%{v}$m', '%{v}$%',
    '%{v}n', '%.{v}n', '%{v}%', '%.{v}%', '%{v}m', '%.{v}m', '%{v}c', '%.{v}c', '%.{v}f', '%{v}.{v}f', '%{v}<PRId64>', '%{v}$<PRId64>',
    '%-{v}ls', '%0{v}x', '%{v}$d%{v}$d', '%d%{v}$m', '%1$d%{v}$m', '%{v}$.{v}s', '%{v}$*{v}$d', '%1$.*{v}$s', '%{v}p', '%.{v}p',
]
# big or delicate strings, written as expressions so that a replay file can carry them exactly
BOUNDARY_EXPRS = [
    "'%d'*4095", "'%d'*4096", "'%d'*4097", "'%*d'*2048", "'%*d'*2049", "'%*.*d'*1365+'%d'", "'%*.*d'*1365+'%*d'", "'%d'*4096+'%m%%'",
    "'%m'*5000", "'%%'*5000", "'%m'*5000+'%d'*4096", "'x%sy'*4096", "'%s'*4096+'%*d'", "'%d'*4095+'%.*s'", "'%d'*4094+'%*.*f'",
    "''.join('%%%d$d'%i for i in range(1,4097))", "''.join('%%%d$d'%i for i in range(1,4098))",
    "''.join('%%%d$d'%i for i in range(4096,0,-1))", "''.join('%%%d$d'%i for i in range(1,4097) if i!=2000)",
    "''.join('%%%d$d'%i for i in range(1,4095))+'%4096$*4095$d'", "''.join('%%%d$d'%i for i in range(1,4096))+'%4096$s%4096$d'",
    "''.join('%%%d$s'%i for i in range(1,4096))+'%4095$*4096$s'", "''.join('%%%d$*%d$d'%(2*i,2*i-1) for i in range(1,2049))",
    "'%1$d'*5000", "'%1$d%2$s'*3000", "'a'*20000+'%d'", "'%d'+'\\n'*20000", "'%'+'0'*5000+'d'", "'%'+'-'*5000+'d'", "'%'+'#'*5000+'s'",
]
BOUNDARY_FIXED = [
    '', '%', '%%', '%d', 'a', '%1$d%3$d', '%2$d', '%1$d%2$d%4$d', '%3$d%1$d', '%2$*3$d', '%3$d%2$d%1$d', '%2$d%1$d', '%2$s%1$d%2$s',
    '%1$d%1$s', '%1$d%1$c', '%1$*1$d', '%1$ld%1$li', '%1$d%1$u', '%1$d%1$i', '%1$x%1$X', '%1$s%1$*1$d', '%1$*1$s', '%1$lc%1$C', '%1$ls%1$S',
    '%1$<PRId32>%1$d', '%1$<PRId32>%1$<PRIi32>', '%1$<PRId32>%1$<PRIu32>', '%1$<PRIdMAX>%1$jd', '%1$zd%1$zu', '%1$hhd%1$c', '%1$n%1$d',
    '%2$*1$d%1$d', '%1$qd%1$lld', '%1$Ld%1$qd', '%1$Zu%1$zu', '%1$Lf%1$f', '%1$lf%1$f', '%1$.*1$d', '%1$*1$.*1$d', '%2$*1$.*1$f',
    '%1$hn%1$hd', '%1$p%1$s', '%1$tu%1$td', '%1$c%1$lc',
    '%d%1$d', '%1$d%d', '%1$*d', '%*1$d', '%1$.*d', '%.*1$d', '%1$d%%%m%2$d', '%d%%%m%d', '%1$m%d', '%d%1$m', '%1$%', '%m%1$d%m', '%1$m',
    '%0$d', '%00$d', '%01$d', '%010$d', '%1$$d', '%$d', '%*$d', '%.*$d', '%*0$d', '%.*0$d', '%1$*0$d', '%0$m', '%0$%', '%4096$m', '%4097$m',
    '%*m', '%1$*1$m', '%2$*1$m', '%*1$m', '%.*m', '%.3m', '%#m', '%0m', "%'m", '%-m', '%+m', '% m', '%Im', '%lm', '%hm',
    '%*%', '%.*%', '%5%', '%.%', '%-%', '%#%', '%0%', "%'%", '%l%', '%hh%', '%1$*2$%',
    '%*n', '%.*n', '%5n', '%.n', '%-n', '%1$n', '%hhn', '%lln', '%jn', '%zn', '%tn', '%qn', '%Ln', '%Zn', '%1$hhn%1$hhd',
    '%.0d', '%.00d', '%.007d', '%.d', '%05d', '%00d', '%-05d', '%0-5d', '%+ d', '% +d', '%05.3d', '%-05.3d', '%0.d', '%0s', '%0c', '%0p',
    '%#d', '%#u', '%#i', '%#c', '%#s', '%#p', "%'x", "%'o", "%'e", "%'a", "%'s", "%'c", "%'F", "%'G", '%Ix', '%Is', '%If',
    '%lf', '%le', '%lA', '%Lf', '%LA', '%hf', '%hhf', '%llf', '%qf', '%jf', '%zf', '%Zf', '%tf',
    '%lc', '%hc', '%Lc', '%lC', '%ls', '%hs', '%lS', '%lp', '%Lp', '%hhp', '%.3c', '%.3lc', '%.3C', '%.3p', '%.3ls', '%.3S', '%.*S',
    '%<PRId32>', '%<PRId32', '%<PRId3>', '%<PRI32>', '%<PRIz32>', '%<PRIdLEAST>', '%<PRIdFAST128>', '%<PRIdPTR>', '%<PRIXMAX>', '%l<PRId32>',
    '%5<PRIu8>', '%-5.3<PRIxFAST16>', "%'<PRIx32>", "%'<PRIu32>", '%#<PRId64>', '%#<PRIo64>', '%1$<PRIdLEAST64>%2$<PRIuPTR>', '%<PRId32>%<prid32>',
    '% ', '%!', '%\n', '%\x00', '%é', '%d%', '%d%\x7f', '%d%\x1f', 'a%', '%d é %s \U0010ffff %c', '%d\x00%s', '\n%d\n', '100%',
    '100%% %d', '%5%d', '%d %', '%hh', '%l', '%1$', '%1', '%.', '%*', '%.*', '%<', '%<P',
    '%\u0661d', '%1\u0661$d', '%\u0661$d', '%.\u0663d', '%*\u0661$d', '%\uff11d', '%\u00b2d', '%d\u0661', '%\uff04d', '%1\uff04d', '%\uff0ad',
]


def gen_boundary(ctx):
    for v in BOUNDARY_VALUES:
        for t in BOUNDARY_TEMPLATES:
            yield t.replace('{v}', v), 'boundary-value'
    for e in BOUNDARY_EXPRS:
        yield eval(e), 'expr:' + e   # noqa: the expressions are the constants above
    for s in BOUNDARY_FIXED:
        yield s, 'directed'
    for s in corpus():
        yield s, 'corpus'


def gen_chars(maxlen):
    for k in range(maxlen + 1):
        for seq in itertools.product(ALPHABET, repeat=k):
            yield ''.join(seq), 'chars<=%d' % maxlen


R_LITS = ['', ' ', 'a', 'File %', ': ', '\n', 'café ', '%%', '%m', ' of ', '\t', '100%% ', '\U0010ffff', 'x<y>z', '$', '*', '.']
MUT_CHARS = "%$*.0123456789dshlLqjztZcCSpnmxXfeguioaAEFG<>PRIMTLEAS #+-'\né\x00"


def rand_directive(rng, numbered, counter):
    """one directive, valid with high probability (the validity knowledge used here only steers the generator)"""
    body = rng.choice(['d', 'd', 's', 's', 'u', 'ld', 'lu', 'c', 'f', 'x', 'zu', 'lld', 'hhd', 'p', 'g', 'Lf', 'n', 'ls', 'i', 'jd', 'td', 'qd',
                       '<PRId32>', '<PRIu64>', '<PRIxMAX>', 'C', 'S', 'm', '%', 'e', 'X', 'o', 'hn', 'lc', 'f', 'hu', 'llx', 'Zu', 'Lg', 'a']) \
        if rng.random() < 0.92 else rng.choice(LENGTHS) + rng.choice(CONVS)
    cv = body[4] if body.startswith('<') else body[-1]
    careful = rng.random() < 0.9
    pool = [f for f in FLAG_CHARS if cv in R_FLAG_OK[f]] if careful else list(FLAG_CHARS)
    k = min(len(pool), rng.choice([0, 0, 0, 0, 1, 1, 2, 3]))
    fl = ''.join(rng.sample(pool, k))

    def num():
        if numbered:
            counter[0] += 1
            return '%d$' % (counter[0] if rng.random() < 0.9 else rng.randrange(0, 6))
        return ''

    def magnitude(small):
        return str(rng.choice(small) if rng.random() < 0.93 else rng.choice([2 ** 31 - 1, 2 ** 31, 4096, 4097]))
    r = rng.random()
    w = '' if r < 0.55 or (careful and cv in 'n%') else (magnitude([1, 5, 10, 80]) if r < 0.85 else '*' + num())
    r = rng.random()
    p = '' if r < 0.6 or (careful and cv not in R_PREC_OK) else ('.' + (magnitude([0, 2, 10]) if rng.random() < 0.8 else '') if r < 0.88 else '.*' + num())
    idx = num() if (cv != '%' or not careful) else ''
    return '%' + idx + fl + w + p + body


def gen_random(ctx, n):
    rng = ctx.rng
    for _ in range(n):
        numbered = rng.random() < 0.4
        counter = [0]
        parts = [rng.choice(R_LITS)]
        for _ in range(rng.choice([1, 1, 2, 2, 3, 4])):
            parts.append(rand_directive(rng, numbered if rng.random() < 0.95 else not numbered, counter))
            parts.append(rng.choice(R_LITS))
        s = ''.join(parts)
        if rng.random() < 0.7 and s:
            cs = list(s)
            k = rng.randrange(len(cs))
            r = rng.random()
            if r < 0.34:
                del cs[k]
            elif r < 0.67:
                cs.insert(k, rng.choice(MUT_CHARS))
            else:
                cs[k] = rng.choice(MUT_CHARS)
            s = ''.join(cs)
        yield s, 'random'


TOKEN_DIRECTED = [
    '%<PRIdLEAST32>', '%<PRIxMAX>', '%hhd', '%lld', '%.*d', '%.5*d', '%*1d', '%1$$d', '%010$d', '%05d', '%00d',
    'a\nb\x00céd\U0010ffff', 'a\nb\x00céd\U0010ffff%d\n\x00é\U0010ffff%', '%<PRId6>', '%<PRId64', '%<PRIz32>', '%<PRIdFAST16>x',
    '%<PRIdLEAST>', '%<PRIdLEAST8>', '%<PRIdFAST64>', '%<PRIuPTR>', '%<PRIXMAX>', '%<PRIdMAX8>', '%<PRId168>', '%<PRId1>', '%<PRId>', '%<PRI>',
    '%hhhd', '%lll', '%lld', '%llld', '%hld', '%lhd', '%qd', '%jd', '%zd', '%Zd', '%td', '%Ld', '%Lf', '%.', '%.*', '%*5$d', '%.*5$d', '%*5d',
    "%-+ #0'I5.3ld", 'é%dü', '%1$', '%1', '%1$*2$.*3$d', '%1$*2$.3$d', '%1$*2.*3$d', '%10$*20$.*30$<PRIo16>', '%0$d', '%00$d', '%$d',
    '%.0d', '%.00d', '%.-1d', '%-.1d', '%.1-d', '%5.d', '%5.5.5d', '%5*d', '%**d', '%*.*.*d', '%*$d', '%1$1$d', '%1$*1$1$d', '%%%', '%%%%', '% %',
    '%I', '%Id', "%'", '%#', '%-', '%+', '%5', '%*', '%h', '%l', '%L', '%q', '%j', '%z', '%Z', '%t', '%<', '%<PRIdPTR', '%>PRId32<', '%\udc80d',
    '\udc80%d', '%d\ud800',
]


_CORPUS = None


def corpus():
    global _CORPUS
    if _CORPUS is None:
        out = []
        p = os.path.join(common.VERIF, 'corpus', 'C11')
        if os.path.isdir(p):
            for f in sorted(os.listdir(p)):
                if f.endswith('.json'):
                    data = json.load(open(os.path.join(p, f)))
                    out.extend(x for x in data if isinstance(x, str))
        _CORPUS = out
    return _CORPUS


# ======================================================================= running
def _show(s):
    """input as it goes into evidence / replay files: exact when short, otherwise head + length + digest"""
    if len(s) <= 600:
        return {'s': s}
    return {'s_head': s[:200], 's_tail': s[-60:], 'len': len(s), 'sha256': hashlib.sha256(s.encode('utf-8', 'surrogatepass')).hexdigest()}


def _batches(gen, size):
    buf = []
    for x in gen:
        buf.append(x)
        if len(buf) >= size:
            yield buf
            buf = []
    if buf:
        yield buf


def run_tokens(ctx, cases, sizes):
    d = {}
    for s, o in cases:
        d.setdefault(s, o)
    req = [('ctokens ' + enc_str(s), s) for s in d]
    res = common.compare_parallel('harness.c11', 'impl_ctokens', req, per_case_timeout=60)
    ctx.evaluations += len(res)
    for (line, s, m, r) in res:
        o = d[s]
        sizes['1:' + o] = sizes.get('1:' + o, 0) + 1
        last = r.rsplit(' ', 1)[-1][:1] if r else 'empty'
        ctx.count('tokens:' + ('bad-position' if last == 'B' else ('crash' if r.startswith('crash') else 'complete')))
        if m != r:
            ctx.disagree('ctokens', dict(origin=o, **_show(s)), m[:400], r[:400])


_SAMPLED = set()


def nargs_of(r):
    """number of arguments in a canonical `ok ...` line, -1 for a rejection"""
    if not r.startswith('ok '):
        return -1
    sec = r.split(' ')
    a = sec[2][2:] if len(sec) > 2 else ''
    return 0 if not a else a.count('|') + 1


def run_fmtc(ctx, maxd, cases, sizes, seen):
    d = {}
    for s, o in cases:
        if s not in seen:
            d.setdefault(s, o)
    if not d:
        return
    strs = list(d)
    req = [('fmtc %d %s' % (maxd, enc_str(s)), s) for s in strs]
    res = common.compare_parallel('harness.c11', 'impl_fmtc', req, per_case_timeout=120)
    ctx.evaluations += len(res)
    for (line, s, m, r) in res:
        o = d[s]
        key = o.split(':')[0]
        sizes['2:' + key] = sizes.get('2:' + key, 0) + 1
        if r.startswith('ok '):
            sec = r.split(' ')
            nargs = nargs_of(r)
            ctx.count('outcome:accepted')
            ctx.count('args:%s' % (nargs if nargs <= 4 else ('5-16' if nargs <= 16 else '>16')))
            if len(sec) > 3 and sec[3] != 'W=':
                ctx.count('accepted-with-warnings')
            if nargs >= 1:
                ctx.nontriv(s)
        elif r.startswith('err '):
            ctx.count('outcome:rejected')
            ctx.count('error:' + r.split(' ')[1])
        else:
            ctx.count('outcome:' + r.split(' ')[0])
            ctx.count('error:' + r[:40])
        if m != r:
            ctx.disagree('fmtc', dict(origin=o, **_show(s)), m[:600], r[:600])
        # evidence samples: one accepted (with arguments) and one rejected input per origin, up to 10
        tag = (key, r[:2])
        if len(ctx.samples) < 10 and tag not in _SAMPLED and len(s) <= 80 and (nargs_of(r) != 0):
            _SAMPLED.add(tag)
            ctx.samples.append({'s': s, 'origin': o, 'result': r[:160]})
    verdicts = common.pmap('harness.c11', 'oracle_fmtc', strs, per_case_timeout=120)
    ctx.evaluations += len(verdicts)
    for s, v in zip(strs, verdicts):
        if not isinstance(v, tuple):
            ctx.fail('oracle-' + str(v)[:30].replace(' ', '-'), dict(origin=d[s], **_show(s)), 'the oracle did not finish on this input: %s' % (v,))
            continue
        kind, what, gstat, acc = v[:4]
        finding = v[4] if len(v) > 4 else None
        ctx.count('glibc:' + gstat)
        if kind is not None:
            if finding:
                ctx.count('finding:' + finding)
            ctx.fail(kind, dict(origin=d[s], **_show(s)), what, finding=finding)
    if len(seen) < 3000000:
        seen.update(strs)


def replay(ctx, path):
    """check.py C11 --replay <file>: re-run the inputs of a replay file through model, implementation and oracle"""
    obj = json.load(open(path))
    entries = obj.get('failing_inputs') or obj.get('correspondences_broken') or []
    maxd = L.maxdigits()
    strs = []
    for e in entries:
        inp = e.get('input', {})
        if 's' in inp:
            strs.append(inp['s'])
        elif str(inp.get('origin', '')).startswith('expr:') and inp['origin'][5:] in BOUNDARY_EXPRS:
            strs.append(eval(inp['origin'][5:]))   # noqa: one of the constants above
    bad = 0
    for s in strs:
        m = common.run_driver(['fmtc %d %s' % (maxd, enc_str(s))])[0]
        r = impl_fmtc(s)
        v = oracle_fmtc(s)
        print(json.dumps(_show(s)), '\n  model:', m[:300], '\n  impl: ', r[:300], '\n  oracle:', v)
        bad += (m != r) or (v[0] is not None and (len(v) < 5 or v[4] is None))
    print('%d of %d replayed inputs still fail' % (bad, len(strs)))
    return 1 if bad else 0


def check(ctx):
    build = common.coq_build()
    aud = common.audit(ctx.id, coqchk=not ctx.quick())
    maxd = L.maxdigits()
    M = _mod()
    fp = hashlib.sha256(M._directive_re.pattern.encode('utf-8')).hexdigest()
    re_changed = fp != RE_FINGERPRINT
    if re_changed:
        ctx.notes.append('_directive_re.pattern changed (sha256 %s, recorded %s): regex-level and character-level streams run at thorough bounds' % (fp, RE_FINGERPRINT))
    if maxd != 0:
        ctx.notes.append('sys.get_int_max_str_digits() = %d after import lib: digit runs longer than that make int() raise ValueError (D7)' % maxd)
    if not _libc():
        ctx.notes.append('glibc parse_printf_format not available: glibc cross-check skipped')
    if not LP64:
        ctx.notes.append('not an LP64 platform: glibc argument classes not compared, counts only')
    maxlen = 4 if (ctx.quick() and not re_changed) else 5
    nrand = 20000 if ctx.quick() else 400000
    sizes = {}
    # ---- stream 2: fmtc (model vs implementation) + oracle on every case
    seen = set()
    B = 200000
    rand_cases = list(gen_random(ctx, nrand))
    multi_cases = list(gen_multi(ctx))
    for batch in _batches(gen_boundary(ctx), B):
        run_fmtc(ctx, maxd, batch, sizes, seen)
    for batch in _batches(gen_single(ctx), B):
        run_fmtc(ctx, maxd, batch, sizes, seen)
    for batch in _batches(iter(multi_cases), B):
        run_fmtc(ctx, maxd, batch, sizes, seen)
    for batch in _batches(gen_chars(maxlen), B):
        run_fmtc(ctx, maxd, batch, sizes, seen)
    for batch in _batches(iter(rand_cases), B):
        run_fmtc(ctx, maxd, batch, sizes, seen)
    del seen
    # ---- stream 1: the directive regex
    tok_extra = [(s, 'directed') for s in TOKEN_DIRECTED + BOUNDARY_FIXED] + \
                [(s, 'pool') for s, _ in multi_cases[:4 * len(POOL) * len(POOL)]] + [(s, 'random') for s, _ in rand_cases[:50000]] + \
                [(t.replace('{v}', v), 'boundary-value') for v in BOUNDARY_VALUES for t in BOUNDARY_TEMPLATES]
    run_tokens(ctx, tok_extra, sizes)
    for batch in _batches(gen_chars(maxlen), 300000):
        run_tokens(ctx, batch, sizes)
    ctx.notes.append('stream sizes (distinct inputs): ' + ', '.join('%s=%d' % kv for kv in sorted(sizes.items())))
    return common.finish(
        ctx, 'proof', build, aud, TRUSTED, ASSUME,
        checker_cmd='tools/build.sh (coq_makefile + make: coqc on Props/C11.v) then coqc Audit_C11.v (Print Assumptions)',
        rule='(1) regex level: model scanner (`ctokens`) vs _directive_re.finditer groups on every string of length <= %d over the 14 characters '
             '"%%$*.10dshl<P x", directed strings (PRI macros, hh/ll, .*, *1, 1$$, 010$, 05, 00, NUL/newline/non-ASCII/U+10FFFF literals), boundary '
             'templates, directive pairs, random strings. (2) `fmtc` model vs strformat.c.FormatString (exception class + args, items, per-argument '
             'entries with parent identity, warnings, get_last_integer_conversion for every n) on: (a) single directives = flag strings (all 128 '
             'subsets of "#0 +\'I-" + %d repeated/reordered; quick: all with <= 1 flag + 33000 sampled others) x width {none,5,*,*2$} x precision '
             '{none,.,.3,.*,.*3$} x (11 lengths x 22 conversions + 84 <PRI..> macros) x index {none,1$} with dense renumberings; (b) all %d^2 pairs '
             '(glued and with literal separators incl. %%%%, %%m, newline, NUL, non-ASCII) and %s triples from a pool of %d directives; (c) boundary '
             'values %d digit strings x %d templates (index, *index, width, precision), 4095/4096/4097 unnumbered and numbered arguments, gaps, type '
             'mismatches, mixtures, %d directed strings, corpus; (d) every string of length <= %d over the same 14 characters; (e) %d seeded random '
             'strings of mostly valid directives glued with literals and mutated by one character. (3) oracle on every case of (2): ref_printf '
             '(own tokenizer + printf(3) tables) decides acceptance and the argument type list; own-exception check; glibc parse_printf_format '
             'argument count and coarse classes on accepted ASCII strings. non-trivial = distinct accepted string with >= 1 argument'
             % (maxlen, len(EXTRA_FLAGS), len(POOL), 'all %d^3' % len(POOL) if not ctx.quick() else '15000 sampled', len(POOL),
                len(BOUNDARY_VALUES), len(BOUNDARY_TEMPLATES), len(BOUNDARY_FIXED), maxlen, nrand))

"""python-brace half of C13: implementation runner, live-interpreter references, the property's oracle, streams."""
import itertools
import re
import string

import common
from common import enc_str

ALPHA = ['{', '}', ':', '!', '.', '[', ']', '0', 'a', '²', '٣', 's', 'd', '<', '+', '#', ',', 'x']
TYPE_ORDER = ['str', 'int', 'float']


def line(s):
    return 'pybrace ' + enc_str(s)


# ---------------------------------------------------------------- implementation
def _parse(s):
    from lib.strformat import pybrace as M
    return M, M.FormatString(s)


def impl(s):
    from lib.strformat import pybrace as M
    try:
        f = M.FormatString(s)
    except M.Error as e:
        if type(e) is M.Error:
            return 'err Error ' + (enc_str(e.args[0]) if len(e.args) == 1 and isinstance(e.args[0], str) else repr(e.args))
        return 'err ' + type(e).__name__
    except Exception as e:  # noqa
        return 'crash ' + type(e).__name__
    out = []
    for k, args in f.argument_map.items():
        key = ('N%d' % k) if isinstance(k, int) else ('S' + enc_str(k))
        # every occurrence of the argument, not only the first: after __init__ each must carry the common type set
        occ = ['+'.join(t for t in TYPE_ORDER if t in a.types) for a in args]
        out.append('%s=%s' % (key, '|'.join(occ)))
    return 'ok ' + ';'.join(out)


# ---------------------------------------------------------------- the live interpreter
def live_markup(s):
    """canonical form of list(string.Formatter().parse(s)), identical to the driver's cpymarkup"""
    try:
        items = list(string.Formatter().parse(s))
    except ValueError:
        return 'err'
    out = []
    for lit, name, spec, conv in items:
        if name is None:
            out.append('L' + enc_str(lit))
        else:
            out.append('F%s:%s:%s:%s' % (enc_str(lit), enc_str(name), enc_str(spec), ('%d' % ord(conv)) if conv else '-'))
    return 'ok ' + ' '.join(out)


def heavy(s):
    return any(len(m) > 4 for m in re.findall(r'\d+', s))


def live_format_class(s, args, kw):
    try:
        s.format(*args, **kw)
    except ValueError:
        return 'ValueError'
    except IndexError:
        return 'IndexError'
    except KeyError:
        return 'KeyError'
    except OverflowError:
        return 'OverflowError'
    except Exception as e:  # noqa
        return type(e).__name__
    return 'Success'


def tokv(v):
    if isinstance(v, int):
        return 'i%d' % v
    if isinstance(v, float):
        return 'f'
    return enc_str(v)


def cpybrace_line(s, args, kw):
    parts = ['cpybrace', enc_str(s), str(len(args))] + [tokv(v) for v in args] + [str(len(kw))]
    for k, v in kw.items():
        parts += [enc_str(k), tokv(v)]
    return ' '.join(parts)


def live_format_payload(p):
    s, args, kw = p
    return live_format_class(s, args, kw)


VALS = [65, 2.5, 'x', -3, 1114112, 'xy', 0, 7.0]


def fields_of(s):
    """(name, spec, conv) of each field according to the live parser, or None"""
    try:
        return [(n, sp, c) for (_, n, sp, c) in string.Formatter().parse(s) if n is not None]
    except ValueError:
        return None


def battery(s, rng, nmax):
    fs = fields_of(s)
    if not fs:
        return [((), {}), ((65,), {})][:nmax]
    npos = 0
    names = []
    auto = 0
    for n, sp, c in fs:
        first = re.split(r'[.\[]', n, 1)[0]
        if first == '':
            auto += 1
        elif first.isdecimal():
            if len(first) < 4:
                npos = max(npos, int(first) + 1)
        else:
            names.append(first)
    npos = max(npos, auto)
    names = list(dict.fromkeys(names))
    out = []
    for v in (65, 2.5, 'x'):
        out.append((tuple([v] * npos), {k: v for k in names}))
    for _ in range(3):
        out.append((tuple(rng.choice(VALS) for _ in range(npos)), {k: rng.choice(VALS) for k in names}))
    if npos:
        out.append((tuple([65] * (npos - 1)), {k: 65 for k in names}))
    if names:
        out.append((tuple([65] * npos), {k: 65 for k in names[1:]}))
    return out[:nmax]


# ---------------------------------------------------------------- the property on the implementation
def is_flat(fs):
    return all(('.' not in n and '[' not in n and '{' not in sp) for n, sp, c in fs)


def d25_shape(s):
    """a nested field whose [index] contains a brace (D25)"""
    return re.search(r':[^{}]*\{[^{}]*\[[^\]]*[{}]', s) is not None


def d24_shape(spec):
    """',' with b/c/o/x/X, or sign / '#' with c (D24)"""
    return re.search(r',[bcoxX]$', spec) is not None or re.search(r'[ +\-#].*c$', spec) is not None


def live_flat(s):
    """'flat' / 'compound' / 'err': the property's notion of a flat string, read off the live parser's fields"""
    fs = fields_of(s)
    if fs is None:
        return 'err'
    return 'flat' if is_flat(fs) else 'compound'


def oracle(s):
    """None or (kind, description, finding)"""
    r = impl(s)
    fs = fields_of(s)
    if r.startswith('crash'):
        return ('py-crash', 'pybrace.FormatString raised a foreign exception: ' + r, None)
    if not r.startswith('ok'):
        return None
    if fs is None:
        return ('py-accepts-unparsable', 'accepted (%s), but string.Formatter().parse raises ValueError' % r[3:],
                'D25' if d25_shape(s) else None)
    if not is_flat(fs) or heavy(s):
        return None
    # arguments with the reported positions, names and types
    sig = {}
    for kv in r[3:].split(';'):
        if not kv:
            continue
        k, v = kv.rsplit('=', 1)
        sig[k] = v.split('|')[0].split('+')
    npos = max([int(k[1:]) + 1 for k in sig if k.startswith('N')] + [0])
    if npos > 50:
        return None
    sample = {'str': 'x', 'int': 65, 'float': 2.5}
    # an argument reported with an EMPTY type set: no argument "of a reported type" exists for it (the model never reports one:
    # C13_py_types_inhabited). It is a failing input when indeed no str / int / float value in that place lets str.format succeed.
    empty = [k for k, ts in sig.items() if ts == ['']]
    if empty:
        outcomes = []
        for t in ('str', 'int', 'float'):
            args = [0] * npos
            kw = {}
            for k, ts in sig.items():
                v = sample[t if ts == [''] else ts[0]]
                if k.startswith('N'):
                    args[int(k[1:])] = v
                else:
                    kw[common.dec_str(k[1:])] = v
            outcomes.append(live_format_class(s, args, kw))
        if all(c != 'Success' for c in outcomes):
            return ('py-accepted-not-formattable', 'accepted with %s: an argument is reported with no admissible type, and %r.format fails with a str, an int and a float '
                    'in its place (%s)' % (r[3:], s, ', '.join(outcomes)), None)
        return None
    for variant in range(3):
        args = [0] * npos
        kw = {}
        for k, ts in sig.items():
            v = sample[ts[variant % len(ts)]]
            if k.startswith('N'):
                args[int(k[1:])] = v
            else:
                kw[common.dec_str(k[1:])] = v
        c = live_format_class(s, args, kw)
        if c != 'Success':
            bad_specs = [sp for n, sp, cv in fs if d24_shape(sp)]
            return ('py-accepted-not-formattable', 'accepted with %s, but %r.format(*%r, **%r) raises %s' % (r[3:], s, args, kw, c),
                    'D24' if bad_specs else None)
    return None


# ---------------------------------------------------------------- streams
FRAGS = ['{}', '{0}', '{1}', '{a}', '{a.b}', '{a[0]}', '{0.x[y]}', '{!r}', '{!s}', '{!x}', '{:d}', '{:>10}', '{:x<+#010,.3f}', '{:{}}', '{:{w}.{p}}',
         '{0:{1}}', '{{', '}}', 'text', ' ', '{', '}', ':', '!', '{:,}', '{:,d}', '{:n}', '{:,n}', '{:s}', '{:+s}', '{:=5}', '{:05}', '{:.2}', '{:.2d}',
         '{:c}', '{:%}', '{:e}', '{!r:s}', '{!r:d}', '{0:d}', '{0:s}', '{a:d}', '{a:.2}', '{²}', '{٣}', '{a²}', '{:٣}', '{:.٣}', '{:z}', '{:_}', '{:b}',
         '{:#x}', '{: d}', '{:-}', '{:^}', '{:*^9}', '{:}<5}', '{é}', '{_a}', '{a!r:>{w}}', '{:{a[0]}}']


def cases(ctx):
    rng = ctx.rng
    out = []
    k = 4 if ctx.quick() else 5
    for n in range(k + 1):
        for t in itertools.product(ALPHA, repeat=n):
            out.append(''.join(t))
    # format specs: { : <every spec of length <= 3 over the spec alphabet> }
    SP = ['<', '=', '+', ' ', '#', '0', '5', ',', '.', 's', 'd', 'c', 'n', 'x', 'f', '%', 'a', '٣', '_', 'z']
    kk = 3 if ctx.quick() else 4
    for n in range(kk + 1):
        for t in itertools.product(SP, repeat=n):
            out.append('{:' + ''.join(t) + '}')
    # one argument used several times with different conversions and specs (the reported types are those common to ALL its uses)
    USES = ['', ':d', ':s', ':.2', ':e', ':n', ':c', ':%', ':,', ':x', '!r:s', ':>10', ':+', ':10', ':.1%', ':05']
    for key in ('0', 'a'):
        for n in (2, 3) if ctx.quick() else (2, 3, 4):
            for t in itertools.product(USES, repeat=n):
                out.append(' '.join('{' + key + u + '}' for u in t))
    nrand = 20000 if ctx.quick() else 400000
    for _ in range(nrand):
        s = ''.join(rng.choice(FRAGS) for _ in range(rng.randrange(1, 5)))
        r = rng.random()
        if r < 0.15 and s:
            i = rng.randrange(len(s))
            s = s[:i] + s[i + 1:]
        elif r < 0.3 and s:
            i = rng.randrange(len(s) + 1)
            s = s[:i] + rng.choice(ALPHA + ['\n', '\x7f', '1', '9']) + s[i:]
        out.append(s)
    for n in (2147483647, 2147483648, 10 ** 20):
        out += ['{%d}' % n, '{:%d}' % n, '{:.%d}' % n, '{:.%df}' % n]
    out += ['{' * 10, '}' * 10, '{a' * 10, '{0}' * 100, '{}' * 100, '{a[' + 'x' * 50, '{0!' + 's' * 50, '{²}{', '{:{a[}]}}', '{:{a[{]}}']
    return list(dict.fromkeys(out))

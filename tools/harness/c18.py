"""C18: date fields are normalised canonically and judged by the real calendar."""
import datetime
import itertools
import re

import common
from common import enc_str

TRUSTED = [
    'Coq 8.16.1 kernel (coqc, vm_compute); coqchk in thorough tier',
    'axioms: none (Print Assumptions must report "Closed under the global context" for every theorem of Props/C18.v)',
    'Spec/Calendar.v: hand-written proleptic Gregorian calendar (leap rule, month lengths, day count by summation)',
    'hand-written Gallina model Model/Dates.v of gettext.fix_date_format / _parse_date / _search_for_date_boilerplate / parse_date '
    'and Checker.check_dates',
    'Generated/Timezones.v (gettext._timezones in dict order) and Generated/DatesUcd.v (str.isspace and regex \\s code points of the '
    'running interpreter), regenerated on every run',
    'extraction (ExtrOcamlBasic only) + ocaml/driver.ml',
    'source translator tools/gen/gen_dates_src.py (python ast -> Gallina, fail-closed subset, rules in its docstring) and its target vocabulary '
    'coq/Lib/PyDates.v: Generated/DatesSrc.v is trusted to mean what gettext.parse_date / fix_date_format / Checker.check_dates say '
    '(C18_source_tie_*); str.strip, the two regexes, strptime, _timezones, utc_now and datetime comparison stay oracles there',
    'the `re` engine and datetime.strptime are modelled (backtracking scanner; calendar conditions), not verified; tied by the '
    'regex-level and strptime-level correspondences below',
    'correspondence: fix_date_format / _parse_date / _search_for_date_boilerplate / parse_date called directly; Checker.check_dates '
    'called in-process on a constructed context with misc.utc_now pinned',
]
ASSUME = ['tz_hint is None or "-0000" (the only values check_dates passes) or any other string the %z check accepts with length 5; '
          'other hints make fix_date_format raise ValueError/AssertionError, which the model reproduces (C18_fix_hint_Z_asserts) '
          'but the property does not cover',
          'non-ASCII hints are outside the modelled domain (Crash NotImplemented in the model, skipped in the comparison)']

UTC = datetime.timezone.utc
ORIGIN = datetime.datetime(1, 1, 1, tzinfo=UTC)
US = datetime.timedelta(microseconds=1)
NBSP = '\xa0'


# ---------------------------------------------------------------- implementation runners
def _own(e):
    from lib import gettext
    if isinstance(e, gettext.BoilerplateDate):
        return 'err boilerplate'
    if isinstance(e, gettext.DateSyntaxError):
        return 'err invalid'
    return 'crash ' + type(e).__name__


def impl_fix_raw(s, hint):
    from lib import gettext
    try:
        return 'ok', gettext.fix_date_format(s, tz_hint=hint)
    except Exception as e:  # noqa
        return _own(e), None


def now_us(now):
    return (now - ORIGIN) // US


def canon_date_tags(recorded):
    per = {'POT-Creation-Date': [], 'PO-Revision-Date': []}
    other = []
    for name, extra in recorded:
        extra = [str(x) for x in extra]
        f = extra[0].rstrip(':') if extra else '?'
        if f not in per:
            other.append('other:' + name)
            continue
        if name == 'duplicate-header-field-date' and len(extra) == 1:
            per[f].append('dup')
        elif name == 'no-date-header-field' and len(extra) == 1:
            per[f].append('nofield')
        elif name == 'boilerplate-in-date' and len(extra) == 2:
            per[f].append('boiler ' + enc_str(extra[1]))
        elif name == 'invalid-date' and len(extra) == 2:
            per[f].append('invalid ' + enc_str(extra[1]))
        elif name == 'invalid-date' and len(extra) == 4 and extra[2] == '=>':
            per[f].append('invalidfix ' + enc_str(extra[1]) + ' ' + enc_str(extra[3]))
        elif name == 'date-from-future' and len(extra) == 2:
            per[f].append('future ' + enc_str(extra[1]))
        elif name == 'ancient-date' and len(extra) == 2:
            per[f].append('ancient ' + enc_str(extra[1]))
        else:
            other.append('other:' + name + '/' + str(len(extra)))
    r = 'ok ' + ' | '.join(per['POT-Creation-Date']) + ' || ' + ' | '.join(per['PO-Revision-Date'])
    if other:
        r += ' ## ' + ' '.join(other)
    return r


def run_check_dates(now, tmpl, binary, cts, pots, pos):
    from harness import impl_checker as IC
    from lib import misc
    cls = IC.get_checker_class()
    chk = cls('/nonexistent/x.po', options=IC.make_options())
    c = IC.new_ctx(is_template=tmpl, is_binary=binary)
    if cts:
        c.metadata['Content-Type'] = list(cts)
    if pots:
        c.metadata['POT-Creation-Date'] = list(pots)
    if pos:
        c.metadata['PO-Revision-Date'] = list(pos)
    saved = misc.utc_now
    misc.utc_now = lambda: now
    try:
        chk.check_dates(c)
    except Exception as e:  # noqa
        return 'crash ' + type(e).__name__, chk.recorded
    finally:
        misc.utc_now = saved
    return canon_date_tags(chk.recorded), chk.recorded


def impl(payload):
    op = payload[0]
    from lib import gettext
    if op == 'fix':
        kind, r = impl_fix_raw(payload[1], payload[2])
        return kind + (' ' + enc_str(r) if r is not None else '')
    if op == 're':
        m = gettext._parse_date(payload[1])
        if m is None:
            return 'none'
        d, t, zh, zm, ab = m.groups()
        if zh is not None and zm is not None:
            z = 'num %s %s' % (enc_str(zh), enc_str(zm))
            if ab is not None:
                z += ' +abbr'
        elif ab is not None:
            z = 'abbr ' + enc_str(ab)
        else:
            z = 'nozone'
        return 'match %s %s %s' % (enc_str(d), enc_str(t), z)
    if op == 'bp':
        return 'true' if gettext._search_for_date_boilerplate(payload[1]) else 'false'
    if op == 'strip':
        return enc_str(payload[1].strip())
    if op == 'ord':
        try:
            return 'ok %d' % datetime.date(payload[1], payload[2], payload[3]).toordinal()
        except ValueError:
            return 'invalid'
    if op == 'parse':
        try:
            st = gettext.parse_date(payload[1])
        except Exception as e:  # noqa
            return _own(e)
        delta = st - ORIGIN
        q, rem = divmod(delta, datetime.timedelta(minutes=1))
        if rem:
            return 'ok non-integral-minutes'
        return 'ok %d' % q
    if op == 'hint':
        try:
            datetime.datetime.strptime(payload[1], '%z')
            return 'ok '
        except Exception as e:  # noqa
            return 'crash ' + type(e).__name__
    if op == 'check':
        _, now, tmpl, binary, cts, pots, pos = payload
        return run_check_dates(now, tmpl, binary, cts, pots, pos)[0]
    raise ValueError(op)


def line_of(payload):
    op = payload[0]
    if op == 'fix':
        return 'dfix %s %s' % ('-' if payload[2] is None else enc_str(payload[2]), enc_str(payload[1]))
    if op in ('re', 'bp', 'strip', 'parse', 'hint'):
        return 'd%s %s' % (op, enc_str(payload[1]))
    if op == 'ord':
        return 'dord %d %d %d' % payload[1:]
    if op == 'check':
        _, now, tmpl, binary, cts, pots, pos = payload
        parts = ['dcheck', str(now_us(now)), '1' if tmpl else '0', '1' if binary else '0']
        for l in (cts, pots, pos):
            parts.append(str(len(l)))
            parts += [enc_str(x) for x in l]
        return ' '.join(parts)
    raise ValueError(op)


# ---------------------------------------------------------------- the property's own oracle
CANON = re.compile(r'[0-9]{4}-[0-9]{2}-[0-9]{2} [0-9]{2}:[0-9]{2}[+-][0-9]{4}\Z')
# reference reading of an accepted field, written from the documented PO date syntax (independent of lib.gettext's regex)
REF = re.compile(r'([0-9]{4}-[0-9]{2}-[0-9]{2})(?:\s+|T)([0-9]{2}:[0-9]{2})(?::[0-9]{2})?\s*(.*)\Z', re.S)
REF_NUM = re.compile(r'(?:GMT|UTC)?([+-][0-9]{2}):?([0-9]{2})\Z')


def tool_hint(h):
    return h is None or re.fullmatch(r'[+-]([01][0-9]|2[0-3])[0-5][0-9]', h, re.ASCII) is not None


def instant_of(r):
    """aware datetime denoted by a canonical string, by plain integer parsing (no strptime)"""
    y, mo, d, hh, mi = int(r[0:4]), int(r[5:7]), int(r[8:10]), int(r[11:13]), int(r[14:16])
    zh, zm = int(r[17:19]), int(r[19:21])
    if zh > 23 or zm > 59:
        raise ValueError('zone out of range')
    off = datetime.timedelta(hours=zh, minutes=zm)
    if r[16] == '-':
        off = -off
    return datetime.datetime(y, mo, d, hh, mi, tzinfo=datetime.timezone(off))


def read_timezones():
    """independent reading of data/timezones (plain text, not through configparser/lib.gettext)"""
    import os
    tz = {}
    with open(os.path.join(common.REPO, 'data', 'timezones'), encoding='ascii') as f:
        for line in f:
            line = line.strip()
            if not line or line.startswith('#') or line.startswith('['):
                continue
            k, _, v = line.partition('=')
            tz[k.strip()] = v.split()
    return tz


_TZ = {}


def oracle_fix(payload):
    """C18 on one input of fix_date_format, judged on the implementation alone.  None or a description."""
    _, s, hint = payload
    kind, r = impl_fix_raw(s, hint)
    if kind.startswith('err'):
        return None
    if kind.startswith('crash'):
        if tool_hint(hint):
            return 'fix_date_format raised %s' % kind[6:]
        return None
    if not isinstance(r, str) or not CANON.match(r):
        if tool_hint(hint):
            return 'result %r is not of the form YYYY-MM-DD hh:mm+ZZzz' % (r,)
        return None
    try:
        instant_of(r)
    except ValueError as e:
        return 'result %r does not denote an existing calendar instant (%s)' % (r, e)
    k2, r2 = impl_fix_raw(r, None)
    if k2 != 'ok' or r2 != r:
        return 'not a fixed point: fix(%r) = %s %r' % (r, k2, r2)
    if 'tz' not in _TZ:
        _TZ['tz'] = read_timezones()
    tz = _TZ['tz']
    st = s.strip()
    m = REF.match(st)
    if not m:
        return 'accepted %r, which is not <date><sep><time>[:ss][zone]' % (s,)
    if r[:10] != m.group(1) or r[10] != ' ' or r[11:16] != m.group(2):
        return 'date/time of the result %r are not those written in %r' % (r, s)
    ztext = m.group(3)
    mz = REF_NUM.match(ztext)
    if mz:
        if r[16:] != mz.group(1) + mz.group(2):
            return 'offset of the result %r is not the numeric offset written in %r' % (r, s)
    elif ztext == '':
        if hint is None or r[16:] != hint:
            return 'no zone in %r but result %r (hint %r)' % (s, r, hint)
    else:
        ab = ztext[1:] if ztext.startswith('+') else ztext
        if ab not in tz:
            return 'accepted zone text %r which is neither numeric nor a known abbreviation' % (ztext,)
        if len(tz[ab]) != 1:
            return 'accepted the ambiguous abbreviation %r' % (ab,)
        if r[16:] != tz[ab][0]:
            return 'offset of %r is %r, table says %r' % (ab, r[16:], tz[ab][0])
    return None


EPOCH = datetime.datetime(1995, 7, 2, tzinfo=UTC)
BOILER = 'YEAR-MO-DA HO:MI+ZONE'


def oracle_check(payload):
    """the reference verdict for every date value, from fix_date_format's answer and datetime arithmetic"""
    _, now, tmpl, binary, cts, pots, pos = payload
    res, recorded = run_check_dates(now, tmpl, binary, cts, pots, pos)
    if res.startswith('crash'):
        return 'check_dates raised ' + res[6:]
    if ' ## ' in res:
        return 'unexpected tags: ' + res.split(' ## ')[1]
    got = res[3:].split(' || ')
    publican = bool(cts) and cts[0].startswith('application/x-publican;')
    for field, dates, g in (('POT', pots, got[0]), ('PO', pos, got[1])):
        items = [x for x in g.split(' | ') if x]
        exp = []
        if len(dates) == 0:
            if not (field == 'POT' and binary):
                exp.append('nofield')
        else:
            if len(dates) > 1:
                exp.append('dup')
            for v in sorted(set(dates)):
                if tmpl and field == 'PO' and v == BOILER:
                    continue
                hint = '-0000' if ('T' in v and publican) else None
                kind, r = impl_fix_raw(v, hint)
                if kind == 'err boilerplate':
                    exp.append('boiler ' + enc_str(v))
                    continue
                if kind != 'ok':
                    exp.append('invalid ' + enc_str(v))
                    continue
                if r != v:
                    exp.append('invalidfix %s %s' % (enc_str(v), enc_str(r)))
                try:
                    inst = instant_of(r)
                except (ValueError, IndexError):
                    return 'normal form %r of %r is not an instant' % (r, v)
                if inst > now:
                    exp.append('future ' + enc_str(v))
                if inst < EPOCH:
                    exp.append('ancient ' + enc_str(v))
        if items != exp:
            return '%s dates %r now=%s: tags %r, reference verdict %r' % (field, dates, now.isoformat(), items, exp)
    return None


# ---------------------------------------------------------------- generators
YEARS = ['0000', '0001', '1900', '1995', '2000', '2023', '2024', '2100', '9999']
OFFS = [sg + o for o in ('0000', '0059', '0060', '1400', '2359', '2400') for sg in '+-']
SPACES = [' ', NBSP, '\t', '\n', '\x0b', '\x0c', '\r', '\x1c', '\x1f', '\x85', '\u1680', '\u2003', '\u2028', '\u202f', '\u205f', '\u3000']
NOT_SPACES = ['\u200b', '\u180e', '\ufeff', '\x00', '\x7f']
MUT = list('0159-:+T ZG\n') + [NBSP, '\u2003', '\u3000', '\x85', '\x1f', '\u200b', '\u0663', '\uff13', 'U', 'E', 't', '.']
BASES = ['2012-11-01 14:42+0100', '2012-11-01T14:42:59 GMT+01:00', '2012-02-29 23:59-2359', '1995-07-02 00:00 UTC',
         '2012-11-01 14:42 CET', '2012-11-01 14:42+EST', '2012-11-01  14:42:00  -0330', '2012-11-01 14:42', '2012-11-01T14:42',
         'YEAR-MO-DA HO:MI+ZONE', '2012-11-01 14:42+ZONE', '2012-MO-01 14:42+0100', '2012-11-01 14:42 WITA', '2012-11-01 14:42UTC-00:00']
HINTS = [None, '-0000', '+0000', '+0530', '-2359', '+2400', '+0060', 'Z', 'z', '+01:00', '+010030', '+01:00:30', '+01:0030', '+0100:30',
         '+01:00:30.5', '+010030.123456', '+010030.1234567', '+0100.5', '', 'x', '+0100 ', ' +0100', '+01', '+1:00', '0100', 'UTC', '+01000',
         '+\u0660\u066100', '-00\u06600']


def mutants(s, alphabet):
    out = []
    for i in range(len(s) + 1):
        for c in alphabet:
            out.append(s[:i] + c + s[i:])
    for i in range(len(s)):
        out.append(s[:i] + s[i + 1:])
        for c in alphabet:
            if c != s[i]:
                out.append(s[:i] + c + s[i + 1:])
    return out


def fix_cases(ctx):
    from lib import gettext
    rng = ctx.rng
    quick = ctx.quick()
    out = []

    def add(s, hint, origin):
        out.append((('fix', s, hint), origin))
    # field values
    times = [h + ':' + m for h in ('00', '23', '24') for m in ('00', '59', '60')]
    special = {'2024-02-29', '2023-02-29', '2000-02-29', '1900-02-29', '2100-02-29', '0001-01-01', '9999-12-31', '1995-07-02', '0000-01-01', '2023-04-31'}
    for y in YEARS:
        for mo in range(0, 14):
            for d in (0, 1, 28, 29, 30, 31, 32):
                date = '%s-%02d-%02d' % (y, mo, d)
                if mo in (0, 13) and d not in (1, 31):
                    continue
                for t in times:
                    for o in OFFS:
                        if quick and not (date in special or t in ('23:59', '00:00') or o in ('+0000', '-2359', '+2400')):
                            continue
                        add('%s %s%s' % (date, t, o), None, 'fields')
    # separators, seconds, blanks, zones, surroundings
    seps = [' ', '  ', 'T', '\t', NBSP, ' T', 'T ', '', 't', '\u2003', '\n', '\x1c', '\u200b', '\u180e', ' \n ']
    secs = ['', ':00', ':59', ':60', ':5', ':', ':000', ': 00']
    wss = ['', ' ', '  ', NBSP, '\n', '\u3000', '\u200b']
    zones = ['+0100', '-0130', '+01:00', 'GMT+0100', 'UTC-01:00', 'GMT', 'UTC', 'GMT +0100', 'gmt+0100', 'GMT+01:00', 'GMTUTC+0100', '+01:0', '+1:00',
             '+010', '+01000', '+01 00', '+0100\n', '+0100\n\n', '+01::00', '+01:00:00', 'CET', '+CET', '-CET', 'EST', '+EST', '++CET', 'CET+0100', 'cet', '',
             'Z', '+ZONE', '\xb10100', '\u22120100', 'PET', 'PETT', 'PETS', 'WIT', 'WITA', 'CET\n', 'CET\nx', '+', '-', 'UTC+', '+00:60', '+2400', '-23:59']
    leads = ['', ' ', '\n', 'x', NBSP + '\u3000']
    trails = ['', ' ', '\n', '\n\n', 'x', ' \u2003\n']
    prod = itertools.product(leads, seps, secs, wss, zones, trails)
    total = len(leads) * len(seps) * len(secs) * len(wss) * len(zones) * len(trails)
    want = 12000 if quick else 400000
    keep = set(rng.sample(range(total), min(want, total)))
    for i, (l, sp, sc, w, z, tr) in enumerate(prod):
        simple = (l == '' and tr == '') + (sc in ('', ':00')) + (w in ('', ' ')) + (sp in (' ', 'T'))
        if i in keep or simple >= 3:
            add('%s2012-11-01%s14:42%s%s%s%s' % (l, sp, sc, w, z, tr), rng.choice([None, None, '-0000']), 'separators')
    # every abbreviation of the table
    for ab, offs in gettext._timezones.items():
        for form in ('2012-11-01 14:42 %s', '2012-11-01 14:42%s', '2012-11-01 14:42+%s', '2012-11-01T14:42:07 +%s\n', '2012-11-01 14:42 %s ',
                     '2012-11-01 14:42-%s', '2012-11-01 14:42 %sX', '2012-11-01 14:42 X%s', '2012-11-01 14:42 %s+0100', '2012-11-01 14:42 GMT%s'):
            add(form % ab, None, 'abbreviations')
        add('2012-11-01 14:42 ' + ab.lower(), None, 'abbreviations')
        add('2012-11-01 14:42 ' + ab[:-1], None, 'abbreviations')
        add('2012-11-01 14:42 ' + ab, '-0000', 'abbreviations')
    # one-character mutants
    bases = BASES if not quick else BASES
    for b in bases:
        for m in mutants(b, MUT):
            add(m, None, 'mutants')
        if not quick:
            for m in mutants(b, MUT[:12]):
                for m2 in rng.sample(mutants(m, MUT[:12]), 8):
                    add(m2, None, 'mutants2')
    # non-ASCII digits
    for b in BASES[:6]:
        for zero in ('\u0660', '\uff10', '\u0966', '\U0001d7ce'):
            tr = {ord('0') + i: chr(ord(zero) + i) for i in range(10)}
            add(b.translate(tr), None, 'unicode-digits')
            for i, c in enumerate(b):
                if c.isdigit():
                    add(b[:i] + c.translate(tr) + b[i + 1:], None, 'unicode-digits')
    # hints
    for b in BASES + ['2012-11-01T14:42:59\n', '2012-02-30 00:00', '0000-01-01 00:00', '2012-11-01 24:00']:
        for h in HINTS:
            add(b, h, 'hints')
    # random field soup
    nrand = 6000 if quick else 1000000
    toks = ['2012', '1995', '0001', '9999', '0000', '-', '-', '02', '07', '12', '13', '29', '30', '31', '00', '23', '24', '59', '60', ' ', ' ', 'T', ':', ':',
            '+', '-', '+0100', '-0000', '+2359', 'GMT', 'UTC', 'CET', 'EST', 'WITA', '\n', NBSP, 'YEAR', 'MO', 'DA', 'HO', 'MI', 'ZONE', 'x']
    for _ in range(nrand):
        r = rng.random()
        if r < 0.6:
            s = '%s-%s-%s%s%s:%s%s%s%s' % (rng.choice(YEARS), rng.choice(['01', '02', '12', '13', '00', '2']), rng.choice(['01', '28', '29', '30', '31', '32', '1']),
                                              rng.choice([' ', 'T', '  ', NBSP, '']), rng.choice(['00', '23', '24', '7']), rng.choice(['00', '59', '60']),
                                              rng.choice(['', '', ':30', ':61']), rng.choice(['', ' ', '  ']),
                                              rng.choice(OFFS + ['', 'CET', 'EST', 'UTC', 'GMT+01:00', 'UTC-0030', '+01:30', 'Z']))
        else:
            s = ''.join(rng.choice(toks) for _ in range(rng.randrange(1, 12)))
        add(s, rng.choice([None, None, None, '-0000', '+0100']), 'random')
    return out


def regex_cases(ctx):
    quick = ctx.quick()
    out = []
    # tails after a valid date and time
    alpha = ['0', '5', ':', '+', '-', ' ', '\n', 'G', 'M', 'T', 'U', 'C', 'E', 'S', 'Z', NBSP]
    kmax = 3 if quick else 5
    for k in range(0, kmax + 1):
        for seq in itertools.product(alpha, repeat=k):
            out.append((('re', '2012-11-01 14:42' + ''.join(seq)), 're-tails<=%d' % kmax))
    if quick:
        rng = ctx.rng
        for _ in range(20000):
            out.append((('re', '2012-11-01 14:42' + ''.join(rng.choice(alpha) for _ in range(rng.randrange(4, 9)))), 're-tails-sample'))
    # structured tails
    for pre in ('', 'GMT', 'UTC', 'GM', 'UTCGMT', ' ', '\n', ':07', ':07 ', ':7'):
        for sg in ('+', '-', '', '\xb1'):
            for body in ('0100', '01:00', '010', '01:0', '0:100', '01000', '01:000', '01', '', 'CET', 'EST', 'PET', 'PETT', 'WITA', 'WIT', 'WI'):
                for post in ('', '\n', ' ', '\n\n', 'x', '\n '):
                    out.append((('re', '2012-11-01T14:42' + pre + sg + body + post), 're-structured'))
    # heads
    for b in BASES:
        for m in mutants(b, MUT):
            out.append((('re', m), 're-mutants'))
    for lead in ('', ' ', '\n', 'x'):
        out.append((('re', lead + '2012-11-01 14:42+0100'), 're-anchor'))
    # boilerplate: token sequences
    toks = ['YEAR', 'MO', 'DA', 'HO', 'MI', 'ZONE', '-', ' ', ':', '+', '\n', 'x', NBSP]
    kb = 4 if quick else 5
    for k in range(0, kb + 1):
        for seq in itertools.product(toks, repeat=k):
            out.append((('bp', ''.join(seq)), 'bp-tokens<=%d' % kb))
    for b in BASES:
        for m in mutants(b, MUT):
            out.append((('bp', m), 'bp-mutants'))
    # strip
    sp = SPACES + NOT_SPACES + ['a']
    for k in range(0, 4):
        for seq in itertools.product(sp if k < 3 else sp[:8] + sp[-6:], repeat=k):
            out.append((('strip', ''.join(seq)), 'strip'))
    for a in sp:
        for b in sp:
            out.append((('strip', a + b + 'x' + a + 'y' + b + a), 'strip'))
    return out


def calendar_cases(ctx):
    rng = ctx.rng
    out = []
    years = [0, 1, 2, 3, 4, 5, 99, 100, 101, 399, 400, 401, 1899, 1900, 1995, 1996, 1999, 2000, 2001, 2023, 2024, 2100, 2400, 9996, 9999, 10000]
    for y in years:
        for m in range(0, 14):
            for d in (0, 1, 2, 27, 28, 29, 30, 31, 32):
                out.append((('ord', y, m, d), 'calendar-grid'))
    for _ in range(4000 if ctx.quick() else 200000):
        out.append((('ord', rng.randrange(1, 10000), rng.randrange(1, 13), rng.randrange(1, 32)), 'calendar-random'))
    if not ctx.quick():
        for y in range(1, 10000):
            for (m, d) in ((1, 1), (2, 28), (2, 29), (3, 1), (12, 31)):
                out.append((('ord', y, m, d), 'calendar-every-year'))
    # parse_date on 21-character strings
    for y in YEARS:
        for (mo, d) in ((1, 1), (2, 28), (2, 29), (2, 30), (4, 30), (4, 31), (12, 31), (12, 32), (0, 1), (13, 1), (1, 0)):
            for t in ('00:00', '23:59', '24:00', '00:60'):
                for o in OFFS + ['+0959', '-1000', ' 0000', '+00:0', 'Z0000', '+0A00', '+1260']:
                    out.append((('parse', '%s-%02d-%02d %s%s' % (y, mo, d, t, o)), 'parse-grid'))
    for h in HINTS:
        if all(ord(c) < 128 for c in h or ''):
            out.append((('hint', h or ''), 'hint-syntax'))
    for b in ('+0100', '+01:00', '+01:00:30', '+010030', '+01:00:30.123456', 'Z'):
        for m in mutants(b, list('05:+-.Z 9')):
            out.append((('hint', m), 'hint-mutants'))
    return out


def check_cases(ctx):
    rng = ctx.rng
    out = []
    MIN = datetime.timedelta(minutes=1)

    def add(now, tmpl, binary, cts, pots, pos, origin):
        out.append((('check', now, tmpl, binary, tuple(cts), tuple(pots), tuple(pos)), origin))
    dates = ['2012-11-01 14:42+0100', '2012-11-01 14:42-0130', '1995-07-02 00:00+0000', '1995-07-01 23:59+0000', '1995-07-02 00:01+0000',
             '1995-07-02 01:00+0100', '1995-07-02 00:59+0100', '1995-07-01 23:00-0100', '1995-07-01 22:59-0100', '1995-07-02 23:59+2359',
             '1995-07-01 00:00-2359', '1995-07-01 00:01-2359', '0001-01-01 00:00+2359', '9999-12-31 23:59-2359', '2024-02-29 12:00+0000',
             '2012-11-01T14:42:59 GMT+01:00', '2012-11-01 14:42 CET', '2012-11-01 14:42 EST', '2012-11-01T14:42', '2012-11-01 14:42',
             ' 2012-11-01 14:42+0100', '2012-11-01 14:42+0100\n', '2012-02-30 14:42+0100', BOILER, ' ' + BOILER, '2012-11-01 14:42+ZONE',
             '2012-11-01T14:42 UTC', 'T', '', '1995-07-02T00:00', '1995-07-01T23:59']
    pub = ['application/x-publican; v=1']
    far = datetime.datetime(2020, 1, 1, tzinfo=UTC)
    for v in dates:
        for cts in ([], ['text/plain; charset=UTF-8'], pub):
            publican = cts is pub
            kind, r = impl_fix_raw(v, '-0000' if ('T' in v and publican) else None)
            nows = [far, EPOCH, EPOCH - US, EPOCH + US]
            if kind == 'ok':
                try:
                    inst = instant_of(r).astimezone(UTC)
                    nows += [inst, inst - MIN, inst + MIN, inst - US, inst + US, inst + datetime.timedelta(seconds=59, microseconds=999999),
                             inst.astimezone(datetime.timezone(datetime.timedelta(hours=5, minutes=30)))]
                except (ValueError, OverflowError):
                    try:
                        inst = instant_of(r)
                        nows += [datetime.datetime(1, 1, 1, tzinfo=UTC), datetime.datetime(9999, 12, 31, 23, 59, 59, 999999, tzinfo=UTC)]
                    except ValueError:
                        pass
            for now in nows:
                for tmpl, binary in ((False, False), (True, False), (False, True)):
                    add(now, tmpl, binary, cts, [v], [v], 'check-single')
    # duplicates, missing fields, order
    for tmpl, binary in itertools.product((False, True), repeat=2):
        add(far, tmpl, binary, [], [], [], 'check-missing')
        add(far, tmpl, binary, [], ['2012-11-01 14:42+0100'], [], 'check-missing')
        add(far, tmpl, binary, [], [], ['2012-11-01 14:42+0100'], 'check-missing')
        for _ in range(60 if ctx.quick() else 2000):
            k1, k2 = rng.randrange(0, 4), rng.randrange(0, 4)
            add(rng.choice([far, EPOCH, datetime.datetime(2012, 11, 1, 13, 42, tzinfo=UTC), datetime.datetime(2012, 11, 1, 13, 41, 59, 999999, tzinfo=UTC)]),
                tmpl, binary, rng.choice([[], pub, ['text/plain'], ['text/plain', pub[0]], ['Application/x-publican;']]),
                [rng.choice(dates) for _ in range(k1)], [rng.choice(dates) for _ in range(k2)], 'check-duplicates')
    return out


# ---------------------------------------------------------------- the check
def check(ctx):
    build = common.coq_build()
    aud = common.audit(ctx.id, coqchk=not ctx.quick())
    fc = fix_cases(ctx)
    rc = regex_cases(ctx)
    cc = calendar_cases(ctx)
    kc = check_cases(ctx)
    allc = fc + rc + cc + kc
    req = [(line_of(p), p) for (p, _) in allc]
    res = common.compare_parallel('harness.c18', 'impl', req, per_case_timeout=30)
    ctx.evaluations += len(res)
    origin = {}
    for (p, o) in allc:
        origin.setdefault(p, o)
        ctx.count('stream:' + o)
    for (line, payload, m, r) in res:
        op = payload[0]
        ctx.count('%s:%s' % (op, 'done' if op == 'strip' else ' '.join(r.split(' ')[:2]) if r.startswith(('err', 'crash')) else r.split(' ')[0]))
        if op == 'fix' and r.startswith('ok'):
            ctx.nontriv(payload[1:])
        if op == 'check' and r not in ('ok  || ', 'ok nofield || nofield'):
            ctx.nontriv(repr(payload[1:]))
        if m == 'crash NotImplementedError' and op in ('fix', 'hint') and any(ord(c) > 127 for c in (payload[2] if op == 'fix' else payload[1]) or ''):
            ctx.count('skipped:non-ascii-hint')
            continue
        if m != r:
            ctx.disagree(op, {'payload': repr(payload[1:])[:400], 'origin': origin.get(payload)}, m[:400], r[:400])
    verdicts = common.pmap('harness.c18', 'oracle_fix', [p for (p, _) in fc], per_case_timeout=30)
    ctx.evaluations += len(verdicts)
    for (p, o), v in zip(fc, verdicts):
        if v is not None:
            kind = 'crash' if 'raised' in v else 'fixed-point' if 'fixed point' in v else 'canonical' if ('form' in v or 'instant' in v) else 'components'
            ctx.fail(kind, {'s': p[1], 'tz_hint': p[2], 'origin': o}, v)
    verdicts = common.pmap('harness.c18', 'oracle_check', [p for (p, _) in kc], per_case_timeout=30)
    ctx.evaluations += len(verdicts)
    for (p, o), v in zip(kc, verdicts):
        if v is not None:
            ctx.fail('crash' if 'raised' in v else 'verdict', {'now': p[1].isoformat(), 'is_template': p[2], 'is_binary': p[3], 'content_types': p[4],
                                                                 'pot_dates': p[5], 'po_dates': p[6], 'origin': o}, v)
    # calendar: the harness's own statement of the Gregorian rules against datetime (validates Spec/Calendar's reading)
    bad = calendar_selfcheck()
    if bad:
        ctx.disagree('calendar-spec', {'case': bad}, 'Gregorian rules', 'datetime')
    ctx.samples = [{'op': p[0], 'input': repr(p[1:])[:160], 'origin': o} for (p, o) in allc[::max(1, len(allc) // 10)]][:10]
    return common.finish(
        ctx, 'proof', build, aud, TRUSTED, ASSUME,
        checker_cmd='tools/build.sh (coq_makefile + make: coqc on Props/C18.v) then coqc Audit_C18.v (Print Assumptions)',
        rule='model vs implementation on: fix_date_format with and without tz_hint (field-value grid: months 0-13 x days {0,1,28..32} x 9 years x '
             'hours 00/23/24 x minutes 00/59/60 x offsets +-{0000,0059,0060,1400,2359,2400}; separator/seconds/blank/zone/lead/trail products; every '
             'abbreviation of the table in 13 spellings; every one-character insertion/deletion/replacement of 14 base strings over 24 characters '
             'incl. Unicode spaces, non-spaces and non-ASCII digits; hint syntax variants; random field soup); regex-level: _parse_date groups on all '
             'tails over a 16-character alphabet, _search_for_date_boilerplate on token sequences, str.strip; datetime.date.toordinal and parse_date '
             '(minutes since 0001-01-01Z) on calendar grids; Checker.check_dates in-process with misc.utc_now pinned at the instant, +-1 us, +-1 min, '
             'and around the 1995-07-02 epoch, with template/binary/Publican flags and duplicate lists. '
             'ORACLE on the implementation alone: canonical-shape regex, instant existence via datetime(), fix(fix(s)) == fix(s), components equal to an '
             'independent reading of the input and of data/timezones, four-way verdict by datetime comparison. '
             'non-trivial = distinct accepted (input, hint) pair or check_dates case with at least one date tag')


def calendar_selfcheck():
    """Spec/Calendar.v's rules, restated here, agree with datetime on every day of years 1..9999 boundaries"""
    def leap(y):
        return y % 4 == 0 and (y % 100 != 0 or y % 400 == 0)
    total = 0
    for y in range(1, 10000):
        if datetime.date(y, 1, 1).toordinal() != total + 1:
            return 'Jan 1 of %d' % y
        if (datetime.date(y, 12, 31).toordinal() - datetime.date(y, 1, 1).toordinal() + 1) != (366 if leap(y) else 365):
            return 'length of %d' % y
        total += 366 if leap(y) else 365
    return None

"""C13: brace-format parsers agree with the languages they model (perl-brace exact; python-brace vs CPython)."""
import common
from harness import fmt_perl as PL
from harness import fmt_pybrace as PB
from harness import fmt_timing as T

TRUSTED = [
    'Coq 8.16.1 kernel (coqc, vm_compute); coqchk in thorough tier',
    'axioms: none (Print Assumptions must report "Closed under the global context" for every theorem of Props/C13.v)',
    'hand-written Gallina models Model/FmtPerlBrace.v, Model/FmtPyBrace.v of lib/strformat/perlbrace.py, pybrace.py (each regex replaced by a deterministic scanner)',
    'Spec/PerlBrace.v (reading of the property statement), Spec/CPyFormat.v (reading of CPython 3.12 Objects/stringlib/unicode_format.h, Python/formatter_unicode.c; validated against the live interpreter on every run)',
    'Generated/Ucd.v: \\w, \\d, str.isdigit, str.isdecimal of the running interpreter as range trees, regenerated every run; Generated/PyFmtInfo.v',
    'extraction (ExtrOcamlBasic only) + ocaml/driver.ml',
    'the `re` engine is modelled, not verified; its running time is measured, not proved',
    'tools/gen/gen_brace_src.py (python ast -> Gallina translation of perlbrace/pybrace FormatString.__init__, add_argument, Field.__init__; rules in its docstring) + Model/FmtBracePy.v (its target vocabulary: re.finditer as iteration of the one-attempt scanners, objects as cells of the map)',
]
ASSUME = ['the step count of C13_perl_linear counts character inspections of the model scanner (incl. the search finditer continues after a failed attempt), not the re engine\'s',
          'time linearity on the real code is measured on pumped families (t(2n)/t(n) < 3), not proved']


def perl_part(ctx):
    cs = PL.cases(ctx)
    req = [(PL.line(s), s) for s in cs]
    res = common.compare_parallel('harness.fmt_perl', 'impl', req, per_case_timeout=20)
    ctx.evaluations += len(res)
    for (line, s, m, r) in res:
        ctx.count('perl:' + r.split(' ')[0])
        if r.startswith('ok') and ' F' in r:
            ctx.nontriv(('perl', s))
        if m != r:
            ctx.disagree('perlbrace', {'s': s[:200]}, m[:300], r[:300])
    verdicts = common.pmap('harness.fmt_perl', 'oracle', cs, per_case_timeout=20)
    ctx.evaluations += len(verdicts)
    for s, v in zip(cs, verdicts):
        if v is not None:
            ctx.fail('perl-crash' if 'foreign' in str(v) else 'perl-acceptance', {'s': s[:200], 'parser': 'perlbrace'}, v)
    ctx.samples += [{'perlbrace': s} for s in cs[::max(1, len(cs) // 5)]][:5]


def py_part(ctx):
    cs = PB.cases(ctx)
    # 1. model vs implementation
    res = common.compare_parallel('harness.fmt_pybrace', 'impl', [(PB.line(s), s) for s in cs], per_case_timeout=5)
    ctx.evaluations += len(res)
    for (line, s, m, r) in res:
        ctx.count('py:' + (' '.join(r.split(' ')[:2]) if not r.startswith('ok') else 'ok'))
        if r.startswith('ok') and len(r) > 3:
            ctx.nontriv(('py', s))
        if r == 'timeout':
            ctx.fail('py-time', {'s': s[:200], 'parser': 'pybrace'}, 'pybrace.FormatString did not finish within 5 s')
            continue
        if m != r:
            ctx.disagree('pybrace', {'s': s[:200]}, m[:300], r[:300])
    # 2. the property on the implementation, judged by the live interpreter; the domain of C13_py_flat_formats
    #    (flat fields, specs outside D24) is computed by the extracted model and tied here to the live reading
    verdicts = common.pmap('harness.fmt_pybrace', 'oracle', cs, per_case_timeout=5)
    doms = common.run_driver(['pydomain ' + common.enc_str(s) for s in cs])
    flats = common.pmap('harness.fmt_pybrace', 'live_flat', cs, per_case_timeout=5)
    impl_by_s = {s: r for (line, s, m, r) in res}
    ctx.evaluations += len(verdicts) + len(doms)
    for s, v, d, lf in zip(cs, verdicts, doms, flats):
        accepted = impl_by_s.get(s, '').startswith('ok')
        if accepted and lf in ('flat', 'compound'):
            ctx.count('domain:' + d)
            if (d.startswith('flat=1')) != (lf == 'flat'):
                ctx.disagree('flat-domain', {'s': s[:200]}, d, lf)
        if v is not None and v != 'timeout':   # a timeout is already reported by the first stream
            kind, what, finding = v
            if kind == 'py-accepted-not-formattable':
                # inside the theorem's domain a formatting failure contradicts C13_py_flat_formats: never a known finding
                finding = 'D24' if d == 'flat=1 guard=0' else None
            ctx.fail(kind, {'s': s[:200], 'parser': 'pybrace', 'domain': d}, what, finding=finding)
    # 3. spec vs the live interpreter: the markup iterator, then formatting
    res = common.compare_parallel('harness.fmt_pybrace', 'live_markup', [('cpymarkup ' + common.enc_str(s), s) for s in cs], per_case_timeout=20)
    ctx.evaluations += len(res)
    for (line, s, m, r) in res:
        ctx.count('markup:' + r.split(' ')[0])
        if m != r:
            ctx.disagree('cpy_markup', {'s': s[:200]}, m[:300], r[:300])
    reqs = []
    nb = 6 if ctx.quick() else 4
    for s in cs:
        if PB.heavy(s) or len(s) > 200:
            continue
        for args, kw in PB.battery(s, ctx.rng, nb):
            reqs.append((PB.cpybrace_line(s, args, kw), (s, args, kw)))
    res = common.compare_parallel('harness.fmt_pybrace', 'live_format_payload', reqs, per_case_timeout=20)
    ctx.evaluations += len(res)
    for (line, (s, args, kw), m, r) in res:
        ctx.count('format:' + (m if m == 'Outside' else str(r)))
        if m != 'Outside' and m != r:
            ctx.disagree('cpy_format', {'s': s[:200], 'args': repr(args)[:100], 'kw': repr(kw)[:100]}, m, str(r))
    ctx.samples += [{'pybrace': s} for s in cs[::max(1, len(cs) // 5)]][:5]


# pumped families derived from _field_re (the first two are the unterminated format spec of D4, fixed by 89b000c)
PY_FAMILIES = [
    ('py:{:a*n', lambda n: '{:' + 'a' * n),
    ('py:{0:a*n{', lambda n: '{0:' + 'a' * n + '{'),
    ('py:{*n', lambda n: '{' * n),
    ('py:{a[x*n', lambda n: '{a[' + 'x' * n),
    ('py:{0!s*n', lambda n: '{0!' + 's' * n),
    ('py:{a.b*n', lambda n: '{a' + '.b' * n),
    ('py:{0}*n', lambda n: '{0}' * n),
    ('py:{:{}*n', lambda n: '{:' + '{}' * n),
    ('py:{:{a}x*n}', lambda n: '{:' + '{a}x' * n + '}'),
    ('py:text*n', lambda n: 'a' * n + '{'),
    ('py:{{*n}', lambda n: '{{' * n + '}'),
    ('py:{:a*n}', lambda n: '{:' + 'a' * n + '}'),
    ('py:{0*n', lambda n: '{' + '0' * n),
    # many DIFFERENT arguments (the bookkeeping per argument must not grow with the number of arguments seen so far)
    ('py:distinct-names', lambda n: ''.join('{n%06d}' % i for i in range(n // 9 + 1))),
    ('py:distinct-indices', lambda n: ''.join('{%d}' % i for i in range(n // 6 + 1))),
    ('py:distinct-names-typed', lambda n: ''.join('x{n%06d:d}' % i for i in range(n // 12 + 1))),
]

PERL_FAMILIES = [
    ('perl:{*n', lambda n: '{' * n),
    ('perl:{a*n', lambda n: '{a' * n),
    ('perl:{+a*n', lambda n: '{' + 'a' * n),
    ('perl:{a}*n', lambda n: '{a}' * n),
    ('perl:a*n+{', lambda n: 'a' * n + '{'),
    ('perl:distinct-names', lambda n: ''.join('{n%06d}' % i for i in range(n // 9 + 1))),
    ('perl:x+distinct-names', lambda n: ''.join('x{n%06d}' % i for i in range(n // 10 + 1))),
    ('perl:two-names-alternating', lambda n: '{a}{b}' * (n // 6 + 1)),
]


def timing_part(ctx, which, families, sizes):
    payloads = []
    for name, f in families:
        for n in sizes:
            payloads.append((which, f(n)))
    times = common.pmap('harness.fmt_timing', 'time_one', payloads, per_case_timeout=T.CAP, nproc=4)
    ctx.evaluations += len(times)
    k = len(sizes)
    out = []
    for i, (name, f) in enumerate(families):
        ts = times[i * k:(i + 1) * k]
        ok, desc = T.judge(sizes, ts)
        if not ok:
            # confirm on an otherwise idle machine, one case at a time, before calling it superlinear
            ts2 = common.pmap('harness.fmt_timing', 'time_one', [(which, f(n)) for n in sizes], per_case_timeout=T.CAP, nproc=1)
            ctx.evaluations += len(ts2)
            ok, desc2 = T.judge(sizes, ts2)
            desc = desc2 + ' (first measurement: ' + desc + ')'
        ctx.count('timing:' + ('linear' if ok else 'superlinear'))
        out.append((name, ok, desc, f))
        ctx.notes.append('timing %s: %s %s' % (name, 'ok' if ok else 'SUPERLINEAR', desc))
    return out


def check(ctx):
    build = common.coq_build()
    aud = common.audit(ctx.id, coqchk=not ctx.quick())
    perl_part(ctx)
    py_part(ctx)
    sizes = [1 << k for k in range(8, 17 if ctx.quick() else 19)]
    for name, ok, desc, f in timing_part(ctx, 'perlbrace', PERL_FAMILIES, sizes):
        if not ok:
            ctx.fail('perl-time', {'family': name, 'parser': 'perlbrace'}, 'perlbrace.FormatString time is not linear on this family: ' + desc)
    psizes = [1 << k for k in range(8, 15 if ctx.quick() else 17)]
    for name, ok, desc, f in timing_part(ctx, 'pybrace', PY_FAMILIES, psizes):
        if not ok:
            ctx.fail('py-time', {'family': name, 'parser': 'pybrace', 'example': f(24)[:60]},
                     'pybrace.FormatString time is not linear on this family: ' + desc)
    return common.finish(
        ctx, 'proof', build, aud, TRUSTED, ASSUME,
        explanation='Every functional clause is a Coq theorem about the models (perl-brace iff; python-brace inclusion both ways outside D25; own errors only; flat fields format '
                    'successfully with the reported positions, names and types outside D24). The clause "in time linear in the length" is proved for the model scanners only; on the '
                    'real re engine it is measured on doubling families, which no theorem here covers.',
        checker_cmd='tools/build.sh (coq_makefile + make: coqc on Props/C13.v) then coqc Audit_C13.v (Print Assumptions)',
        rule='python-brace: all strings of length <= %d over %r, every "{:spec}" with spec of length <= %d over a 20-character spec alphabet, random '
             'concatenations/mutations of field fragments, boundary numbers; on each: extracted model vs pybrace.FormatString (error class and argument, '
             'argument_map keys in order with common types and counts); the property oracle with the live interpreter (accepted => string.Formatter().parse '
             'succeeds; flat fields => str.format succeeds with arguments of each reported type; no foreign exception); extracted CPython spec vs live '
             '(cpy_markup vs Formatter().parse item by item; cpy_format vs the exception class of str.format for up to %d argument sets per string); '
             'time of FormatString on pumped families derived from _field_re. ' % (4 if ctx.quick() else 5, PB.ALPHA, 3 if ctx.quick() else 4, 6 if ctx.quick() else 4) +
             'perl-brace: extracted model vs perlbrace.FormatString (items, argument set, error argument) and an independent reference '
             '(every "{" opens {identifier}) on all strings of length <= %d over %r, random concatenations of placeholders/fragments, pumped strings; '
             'time of FormatString on pumped families at n = 2^8..2^%d. non-trivial = distinct accepted string with at least one placeholder'
             % (5 if ctx.quick() else 6, PL.ALPHA, 16 if ctx.quick() else 18))

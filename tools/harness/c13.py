"""C13: brace-format parsers agree with the languages they model (perl-brace exact; python-brace vs CPython)."""
import common
from harness import fmt_perl as PL
from harness import fmt_timing as T

TRUSTED = [
    'Coq 8.16.1 kernel (coqc, vm_compute); coqchk in thorough tier',
    'axioms: none (Print Assumptions must report "Closed under the global context" for every theorem of Props/C13.v)',
    'hand-written Gallina models Model/FmtPerlBrace.v, Model/FmtPyBrace.v of lib/strformat/perlbrace.py, pybrace.py (each regex replaced by a deterministic scanner)',
    'Spec/PerlBrace.v (reading of the property statement), Spec/CPyFormat.v (reading of CPython 3.12 Objects/stringlib/unicode_format.h, Python/formatter_unicode.c; validated against the live interpreter on every run)',
    'Generated/Ucd.v: \\w, \\d, str.isdigit, str.isdecimal of the running interpreter as range trees, regenerated every run; Generated/PyFmtInfo.v',
    'extraction (ExtrOcamlBasic only) + ocaml/driver.ml',
    'the `re` engine is modelled, not verified; its running time is measured, not proved',
]
ASSUME = ['the step count of C13_perl_linear counts character inspections of the model scanner (incl. the search finditer continues after a failed attempt), not the re engine\'s',
          'time linearity on the real code is measured on pumped families (t(2n)/t(n) < 3), not proved']


def perl_part(ctx):
    cs = PL.cases(ctx)
    req = [(PL.line(s), s) for s in cs]
    res = common.compare_parallel('harness.fmt_perl', 'impl', req, per_case_timeout=20)
    ctx.evaluations += len(res)
    for (line, s, m, r) in res:
        ctx.count('perl:' + r.split(' ')[0])
        if r.startswith('ok') and ' F' in r:
            ctx.nontriv(('perl', s))
        if m != r:
            ctx.disagree('perlbrace', {'s': s[:200]}, m[:300], r[:300])
    verdicts = common.pmap('harness.fmt_perl', 'oracle', cs, per_case_timeout=20)
    ctx.evaluations += len(verdicts)
    for s, v in zip(cs, verdicts):
        if v is not None:
            ctx.fail('perl-crash' if 'foreign' in str(v) else 'perl-acceptance', {'s': s[:200], 'parser': 'perlbrace'}, v)
    ctx.samples += [{'perlbrace': s} for s in cs[::max(1, len(cs) // 5)]][:5]


PERL_FAMILIES = [
    ('perl:{*n', lambda n: '{' * n),
    ('perl:{a*n', lambda n: '{a' * n),
    ('perl:{+a*n', lambda n: '{' + 'a' * n),
    ('perl:{a}*n', lambda n: '{a}' * n),
    ('perl:a*n+{', lambda n: 'a' * n + '{'),
]


def timing_part(ctx, which, families, sizes):
    payloads = []
    for name, f in families:
        for n in sizes:
            payloads.append((which, f(n)))
    times = common.pmap('harness.fmt_timing', 'time_one', payloads, per_case_timeout=T.CAP, nproc=4)
    ctx.evaluations += len(times)
    k = len(sizes)
    out = []
    for i, (name, f) in enumerate(families):
        ts = times[i * k:(i + 1) * k]
        ok, desc = T.judge(sizes, ts)
        ctx.count('timing:' + ('linear' if ok else 'superlinear'))
        out.append((name, ok, desc, f))
        ctx.notes.append('timing %s: %s %s' % (name, 'ok' if ok else 'SUPERLINEAR', desc))
    return out


def check(ctx):
    build = common.coq_build()
    aud = common.audit(ctx.id, coqchk=not ctx.quick())
    perl_part(ctx)
    sizes = [1 << k for k in range(8, 17 if ctx.quick() else 19)]
    for name, ok, desc, f in timing_part(ctx, 'perlbrace', PERL_FAMILIES, sizes):
        if not ok:
            ctx.fail('perl-time', {'family': name, 'parser': 'perlbrace'}, 'perlbrace.FormatString time is not linear on this family: ' + desc)
    return common.finish(
        ctx, 'proof', build, aud, TRUSTED, ASSUME,
        checker_cmd='tools/build.sh (coq_makefile + make: coqc on Props/C13.v) then coqc Audit_C13.v (Print Assumptions)',
        rule='perl-brace: extracted model vs perlbrace.FormatString (items, argument set, error argument) and an independent reference '
             '(every "{" opens {identifier}) on all strings of length <= %d over %r, random concatenations of placeholders/fragments, pumped strings; '
             'time of FormatString on pumped families at n = 2^8..2^%d. non-trivial = distinct accepted string with at least one placeholder'
             % (5 if ctx.quick() else 6, PL.ALPHA, 16 if ctx.quick() else 18))

"""C07: Plural-Forms diagnostics are truthful, and complete on the examined window."""
import json
import os
import re

import common
from common import enc_str
from harness import intexpr_lib as L
from harness import intexpr_streams as S

TRUSTED = [
    'Coq 8.16.1 kernel (coqc, vm_compute); coqchk in thorough tier',
    'axioms: none (Print Assumptions must report "Closed under the global context" for every theorem of Props/C07.v)',
    'hand-written Gallina model Model/PluralForms.v of gettext.parse_plural_forms and Checker.check_plurals (from the parse of the value on)',
    'Generated/Languages.v (plural-forms declarations of data/languages), regenerated from /repo on every run',
    'extraction (ExtrOcamlBasic only) + ocaml/driver.ml',
    'correspondence: Checker.check_plurals called in-process on a constructed context (metadata, language stub, polib entries)',
    'the `re` engine is modelled (leftmost search of a backtrack-free pattern), not verified',
    'tools/gen/gen_plurals_src.py (python ast of lib/gettext.py parse_plural_expression / parse_plural_forms and of the whole of Checker.check_plurals -> '
    'Generated/PluralsSrc.v, fail-closed subset, rules in its docstring) and its target vocabulary Model/PluralFormsPy.v + Lib/PySrc.v: the C07_source_tie theorems '
    'are about that translation; Model/PluralFormsHead.v (the part of check_plurals before the parse of the value) is tied to the code by it only',
]
ASSUME = ['"contains" in the property is read as Python\'s leftmost regex match (stated in the theorem)',
          'M = 2^32 and the 200-value window as in the code']

MSGFMT = {
    'syntax-error-in-plural-forms': ('syntax', True), 'syntax-error-in-unused-plural-forms': ('syntax', False),
    'unusual-plural-forms': ('unusual', True), 'unusual-unused-plural-forms': ('unusual', False),
    'codomain-error-in-plural-forms': ('codomain', True), 'codomain-error-in-unused-plural-forms': ('codomain', False),
    'arithmetic-error-in-plural-forms': ('arith', True), 'arithmetic-error-in-unused-plural-forms': ('arith', False),
}


def py_format_range(lo, hi):
    if hi - lo <= 5:
        return ', '.join(map(str, range(lo, hi)))
    return ', '.join(map(str, range(lo, lo + 3))) + ', ..., ' + L.int_to_dec(hi - 1)


def canon_tags(recorded, has_plurals, preimage):
    out = []
    extra_problems = []
    for name, extra in recorded:
        if name == 'inconsistent-number-of-plural-forms':
            continue
        if name in MSGFMT:
            kind, used = MSGFMT[name]
            if used != has_plurals:
                extra_problems.append('variant:' + name)
            if kind in ('syntax', 'unusual'):
                out.append(kind)
            elif kind == 'arith':
                m = re.fullmatch(r'f\((\d+)\): (integer overflow|division by zero)', str(extra[0]))
                out.append('arith %s %s' % (m.group(1), 'overflow' if m.group(2).startswith('integer') else 'divzero') if m else 'arith ?' + str(extra[0]))
            else:
                msg = str(extra[0])
                m = re.fullmatch(r'f\(([0-9]+)\) = ([0-9]+) >= ([0-9]+)', msg)
                if m:
                    out.append('codomain-at %s %s %s' % m.groups())
                else:
                    m = re.fullmatch(r'f\(x\) != ([0-9, .]+)', msg)
                    ok = False
                    if m:
                        parts = m.group(1).split(', ')
                        try:
                            lo = L.dec_to_int(parts[0])
                            hi = L.dec_to_int(parts[-1]) + 1
                            ok = (py_format_range(lo, hi) == m.group(1))
                        except ValueError:
                            ok = False
                    out.append('never %s %s' % (L.int_to_dec(lo), L.int_to_dec(hi)) if ok else 'never ?' + msg)
        elif name == 'leading-junk-in-plural-forms':
            out.append('ljunk ' + enc_str(str(extra[0])))
        elif name == 'trailing-junk-in-plural-forms':
            out.append('rjunk ' + enc_str(str(extra[0])))
        elif name == 'incorrect-number-of-plural-forms':
            out.append('incorrect-n %s %d' % (L.int_to_dec(extra[0]), extra[3]))
        else:
            out.append('other:' + name)
    if preimage is None:
        out.append('preimage none')
    else:
        out.append('preimage ' + ';'.join('%d:%s' % (k, ','.join(map(str, v))) for k, v in sorted(preimage.items())))
    return ' | '.join(out + extra_problems)


def impl_plurals(payload):
    value, has_plurals, expected, correct = payload
    import polib
    from harness import impl_checker as IC
    cls = IC.get_checker_class()
    chk = cls('/nonexistent/x.po', options=IC.make_options())
    entries = []
    for k in expected:
        entries.append(polib.POEntry(msgid='a%d' % k, msgid_plural='b', msgstr_plural={i: 'x' for i in range(k)}))
    if has_plurals and not expected:
        entries.append(polib.POEntry(msgid='u', msgid_plural='b', msgstr_plural={0: '', 1: ''}))
    if not has_plurals:
        entries.append(polib.POEntry(msgid='s', msgstr='t'))
    else:
        # plural messages that are NOT translated (fuzzy, obsolete) have other numbers of filled forms: they must not take part in the
        # nplurals bookkeeping ("the number of msgstr[] forms of the translated plural messages")
        entries.insert(len(entries) // 2, polib.POEntry(msgid='fz', msgid_plural='b', msgstr_plural={i: 'x' for i in range(5)}, flags=['fuzzy']))
        entries.append(polib.POEntry(msgid='ob', msgid_plural='b', msgstr_plural={i: 'x' for i in range(6)}, obsolete=True))
    import types
    lang = None if correct is None else types.SimpleNamespace(get_plural_forms=lambda: list(correct))
    ctx = IC.new_ctx(file=entries, is_template=False, language=lang)
    ctx.metadata['Plural-Forms'] = [value]
    try:
        chk.check_plurals(ctx)
    except RecursionError:
        return 'crash RecursionError'
    except Exception as e:  # noqa
        return 'crash ' + type(e).__name__
    return canon_tags(chk.recorded, has_plurals, ctx.plural_preimage)


def line_plurals(payload, maxd):
    value, has_plurals, expected, correct = payload
    parts = ['plurals', str(maxd), '1' if has_plurals else '0', str(len(expected))] + [str(k) for k in expected]
    if correct is None:
        parts.append('-1')
    else:
        parts.append(str(len(correct)))
        parts += [enc_str(c) for c in correct]
    parts.append(enc_str(value))
    return ' '.join(parts)


# ---------------------------------------------------------------- the property's own oracle
def oracle_plurals(payload):
    """Truthfulness of what the real tool reported, judged by the harness reference parser
    and evaluator (independent of model and implementation).  Returns None or a description."""
    value, has_plurals, expected, correct = payload
    r = impl_plurals(payload)
    if r.startswith('crash'):
        return None if r == 'crash RecursionError' else 'check_plurals raised: ' + r
    items = r.split(' | ')
    M = 1 << 32
    # reference decomposition: leftmost "nplurals=<positive integer>;[ \t]*plural=<non-';' text>;?"
    m = re.search(r'nplurals=([1-9][0-9]*);[ \t]*plural=([^;]+);?', value)
    tree = None
    if m:
        try:
            tree = L.ref_parse(m.group(2))
        except L.RefSyntaxError:
            tree = None
    if ('syntax' in items) != (tree is None):
        return 'syntax error reported: %s, but reference says valid: %s' % ('syntax' in items, tree is not None)
    if tree is None:
        return None
    n = L.dec_to_int(m.group(1))
    lj = value[:m.start()]
    rj = value[m.end():]
    if (('ljunk ' + enc_str(lj)) in items) != bool(lj) or (('rjunk ' + enc_str(rj)) in items) != bool(rj):
        return 'junk tags do not carry exactly the text around the declaration'
    if any(i.startswith('ljunk') for i in items) != bool(lj) or any(i.startswith('rjunk') for i in items) != bool(rj):
        return 'junk tag presence wrong'
    # window
    first_bad = None
    for i in range(200):
        o = L.ref_eval_str(tree, i, M)
        if o.startswith('err'):
            first_bad = 'arith %d %s' % (i, o.split()[1])
            break
        v = int(o.split()[1])
        if v >= n:
            first_bad = 'codomain-at %d %d %s' % (i, v, L.int_to_dec(n))
            break
    reported = [i for i in items if i.startswith('arith') or i.startswith('codomain-at')]
    lc_interferes = correct is not None
    if first_bad is None:
        if reported and not lc_interferes:
            return 'window diagnostic %r reported although every n < 200 is fine' % reported
    else:
        if reported != [first_bad] and not lc_interferes:
            return 'window diagnostic %r, reference says %r' % (reported, first_bad)
    # never-claims
    for it in items:
        if it.startswith('never ?'):
            return 'malformed never-claim: ' + it
        if it.startswith('never '):
            lo, hi = map(L.dec_to_int, it.split()[1:])
            claimed = range(lo, hi)
            # sample: every n < 2^12, a stratified sample up to 2^32
            import random
            rnd = random.Random(hash(value) & 0xffff)
            ns = list(range(4096)) + [rnd.randrange(M) for _ in range(300)] + [M - 1 - k for k in range(50)] + [(1 << b) + d for b in range(12, 32) for d in (-1, 0, 1)]
            for x in ns:
                o = L.ref_eval_str(tree, x, M)
                if o.startswith('ok') and int(o.split()[1]) in claimed:
                    return 'claims f(x) != [%s..) but f(%d) = %s' % (L.int_to_dec(lo)[:20], x, o.split()[1])
    # nplurals
    inc = [i for i in items if i.startswith('incorrect-n')]
    if len(expected) == 1:
        if (n != expected[0]) != bool(inc):
            return 'incorrect-number-of-plural-forms reported=%s but n=%s, msgstr count=%d' % (bool(inc), L.int_to_dec(n)[:20], expected[0])
    elif inc:
        return 'incorrect-number reported without a consistent msgstr count'
    return None


def mutate_expr(rng, s):
    ops = ['==', '!=', '<', '<=', '>', '>=', '&&', '||', '%', '/', '*', '+', '-']
    toks = re.findall(r'\d+|==|!=|<=|>=|&&|\|\||[n?:()!<>%/*+-]|\s+', s)
    if not toks:
        return s
    k = rng.randrange(len(toks))
    t = toks[k]
    r = rng.random()
    if t.isdigit():
        toks[k] = str(max(0, int(t) + rng.choice([-1, 1, 1, 10, 100])))
    elif t in ops:
        toks[k] = rng.choice(ops)
    elif t in '()' and r < 0.5:
        toks[k] = ''
    elif r < 0.3:
        toks[k] = rng.choice(['n', '1', '0', '(', ')', '?', ':'])
    return ''.join(toks)


def registry_forms():
    """(language tag, [declarations]) from data/languages via the real ling module"""
    from lib import ling
    out = []
    for ll in sorted(ling.get_primary_languages()):
        lang = ling.parse_language(ll)
        pf = lang.get_plural_forms()
        if pf:
            out.append((ll, list(pf)))
    return out


def cases(ctx):
    rng = ctx.rng
    reg = registry_forms()
    decls = sorted({d for _, ds in reg for d in ds})
    out = []

    def add(value, correct, origin):
        hp = rng.random() < 0.7
        r = rng.random()
        if not hp:
            exp = []
        elif r < 0.25:
            exp = []
        elif r < 0.85:
            m = re.search(r'nplurals=(\d+)', value)
            base = int(m.group(1)) if m and len(m.group(1)) < 6 else 2
            exp = [max(1, base + rng.choice([0, 0, 0, 1, -1]))]
        else:
            exp = sorted(rng.sample(range(1, 7), 2))
        out.append(((value, hp, exp, correct), origin))

    # every registry declaration with its own language's declarations, and with none
    for ll, ds in reg:
        for d in ds:
            out.append(((d, True, [int(re.search(r'nplurals=(\d+)', d).group(1))], ds), 'registry-own'))
            out.append(((d, True, [], None), 'registry-nolang'))
    nmut = 1500 if ctx.quick() else 40000
    for _ in range(nmut):
        d = rng.choice(decls)
        m = re.match(r'nplurals=(\d+); plural=(.*);$', d)
        n, e = int(m.group(1)), m.group(2)
        r = rng.random()
        if r < 0.5:
            e = mutate_expr(rng, e)
        if r > 0.3 and rng.random() < 0.4:
            n = max(0, n + rng.choice([-1, 1, 1, 2]))
        v = 'nplurals=%d; plural=%s;' % (n, e)
        rr = rng.random()
        if rr < 0.1:
            v = rng.choice(['x', ' ', 'nplurals=1; ', 'foo; ']) + v
        elif rr < 0.2:
            v = v + rng.choice([' ', 'x', ';', ' nplurals=2; plural=n;'])
        elif rr < 0.25:
            v = v.replace('; plural', ';plural').replace(';', '', 0)
        elif rr < 0.3:
            v = v[:-1]
        correct = rng.choice([None, rng.choice(reg)[1], [d]])
        add(v, correct, 'registry-mutant')
    nrand = 1500 if ctx.quick() else 40000
    for _ in range(nrand):
        n = rng.choice([1, 2, 3, 4, 6, 7, 201, 4294967296])
        leaves = [0, 1, 2, 3, 5, 10, 11, 20, 100, 199, 200, 4294967295]
        t = L.rand_tree(rng, rng.randrange(1, 6), leaves, pvar=0.6)
        v = 'nplurals=%d; plural=%s;' % (n, L.show(t, 'min'))
        add(v, rng.choice([None, None, rng.choice(reg)[1]]), 'random-expr')
    # periodic expressions with period near the window and gaps in the image
    for p in (2, 3, 5, 50, 99, 100, 150, 198, 199, 200, 201, 250):
        for n in (2, 3, 4, 5):
            for tmpl in ('n%{p}', 'n%{p}==0 ? 0 : 2', 'n%{p}==1 ? 0 : n%{p}==2 ? 2 : 1', '(n%{p})%{n}', 'n%{p}>=1 ? 1 : 3',
                         'n>{p} ? 1 : 0', 'n=={p} ? 1 : 0', 'n<{p} ? 0 : 2', 'n%{p}*2', '2+n%{p}', 'n%{p}/{n}'):
                out.append((('nplurals=%d; plural=%s;' % (n, tmpl.format(p=p, n=n)), True, [], None), 'period-window'))
    # a modulus applied to a COMPOUND operand that first changes beyond the window (no period may be claimed for it from the modulus alone)
    for n, e in [(3, '(n/100)%3'), (2, '(n>300)%2'), (2, '(n/250)%2'), (3, '(n/100+n/300)%3'), (2, '(n>=200)%2'), (4, '(n*n/40000)%4'), (2, '(n==1000)%2'),
                 (3, '(n/100)%3==2 ? 2 : n!=1'), (2, '!(n<400)%2')]:
        out.append((('nplurals=%d; plural=%s;' % (n, e), True, [], None), 'mod-of-compound-operand'))
        out.append((('nplurals=%d; plural=%s;' % (n, e), False, [], None), 'mod-of-compound-operand'))
    # offset O < 200 and period P < 200 but O + P >= 200, and a value that first appears beyond the window
    for O in (101, 150, 190, 195, 198):
        for P in (2, 10, 50, 100, 150, 199):
            for r in (0, 1, P - 1):
                out.append((('nplurals=2; plural=n%%%d==%d && n>%d;' % (P, r, O), True, [], None), 'period-straddles-window'))
                out.append((('nplurals=3; plural=n%%%d==%d && n > %d ? 2 : n != 1;' % (P, r, O), True, [], None), 'period-straddles-window'))
    # syntax near-misses
    for v in ['', 'nplurals=2', 'nplurals=2;', 'nplurals=2; plural=', 'nplurals=2; plural=;', 'nplurals=0; plural=0;', 'nplurals=02; plural=0;',
              'nplurals=2;plural=n;', 'nplurals=2;\tplural=n', 'nplurals=2;  plural=n;;', 'nplurals=2; plural=n;x', 'Nplurals=2; plural=n;',
              'nplurals=2 ; plural=n;', 'nplurals=2; plural =n;', 'nplurals=2; plural=n n;', 'nplurals=2; plural=n\n;', 'nplurals=2;\nplural=n;',
              'nplurals=a; plural=n;', 'nplurals=٢; plural=n;', 'nplurals=2; plural=٢;', 'nplurals=1; plural=0; nplurals=2; plural=n!=1;',
              'nplurals=x nplurals=2; plural=n>1;', 'nplurals=2; plural=(n;', 'nplurals=1; plural=n/0;', 'nplurals=1; plural=n%0;',
              'nplurals=1; plural=4294967296;', 'nplurals=1; plural=4294967295+n;', 'nplurals=2; plural=n-1;', 'nplurals=3; plural=2;',
              'nplurals=' + '9' * 5000 + '; plural=0;', 'nplurals=1; plural=' + '9' * 5000 + ';', 'nplurals=2; plural=n==199;', 'nplurals=2; plural=n==200;']:
        for hp in (True, False):
            out.append(((v, hp, [2] if hp else [], None), 'near-miss'))
            out.append(((v, hp, [], ['nplurals=2; plural=n != 1;']), 'near-miss'))
    return out


def check(ctx):
    build = common.coq_build()
    aud = common.audit(ctx.id, coqchk=not ctx.quick())
    maxd = L.maxdigits()
    cs = cases(ctx)
    req = [(line_plurals(p, maxd), p) for (p, _) in cs]
    res = common.compare_parallel('harness.c07', 'impl_plurals', req, per_case_timeout=60)
    ctx.evaluations += len(res)
    bad = []
    for (line, payload, m, r) in res:
        for it in r.split(' | '):
            ctx.count('tag:' + it.split(' ')[0])
        if r != 'preimage none' and not r.startswith('syntax'):
            ctx.nontriv(payload[0])
        if m != r:
            if L.recursion_finding(ctx, payload[0], r, 'check_plurals'):
                continue
            ctx.disagree('plurals', {'value': payload[0][:300], 'has_plurals': payload[1], 'expected': payload[2], 'correct': payload[3]}, m[:400], r[:400])
            bad.append(payload)
    verdicts = common.pmap('harness.c07', 'oracle_plurals', [p for (p, _) in cs], per_case_timeout=120)
    ctx.evaluations += len(verdicts)
    for (p, o), v in zip(cs, verdicts):
        if v is not None:
            ctx.fail('untruthful' if 'raised' not in str(v) else 'crash', {'value': p[0][:300], 'has_plurals': p[1], 'expected': p[2], 'correct': p[3], 'origin': o}, v,
                     replay=('harness.c07', 'oracle_plurals', [p[0], p[1], p[2], p[3]]) if len(p[0]) < 2000 else None)
    ctx.samples = [{'value': p[0][:120], 'has_plurals': p[1], 'expected': p[2], 'correct': p[3], 'origin': o} for (p, o) in cs[::max(1, len(cs) // 10)]][:10]
    return common.finish(
        ctx, 'proof', build, aud, TRUSTED, ASSUME,
        checker_cmd='tools/build.sh (coq_makefile + make: coqc on Props/C07.v) then coqc Audit_C07.v (Print Assumptions)',
        rule='model check_plurals_core vs Checker.check_plurals (in-process, recorded tags + plural_preimage) on: every registry declaration '
             '(own language / no language), mutants of registry declarations (operator swapped, constant +-1, nplurals +-1, parenthesis dropped, '
             'junk before/after), random expressions, periodic families with period around the 200 window and image gaps, syntax near-misses; '
             'then an independent truthfulness oracle (reference parser/evaluator): syntax iff, junk exact, least failing n < 200 with its outcome, '
             'every f(x) != k claim checked at all n < 4096 + stratified sample to 2^32, nplurals verdict. '
             'non-trivial = distinct header value that parsed and produced a diagnostic or a preimage')

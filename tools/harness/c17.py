"""C17: diagnostics depend on catalog content, not on surface encoding or packaging."""
import copy
import os
import re
import shutil
import subprocess

import common
from harness import pogen
from harness import gettext_ref

TRUSTED = [
    'Coq 8.16.1 kernel (coqc, vm_compute); coqchk in thorough tier',
    'axioms: none (Print Assumptions must report "Closed under the global context" for every theorem of Props/C17.v)',
    'Props/C17.v: fake_path specification; the PO-spelling / MO-layout corollaries rest on the C10 / C08 theorems where those are available',
    'GNU gettext msgcat / msgfmt (when installed) as independent re-spellers / compilers; the harness\'s own PO re-speller and (after the C08 merge) MO serialiser',
    'dpkg-deb for building test packages; os.walk order, temporary-directory handling and subprocesses are explored, not modelled',
    'tools/gen/gen_cli_src.py: fail-closed python-ast -> Gallina translator of lib/cli.py (Checker.tag, check_regular_file, copy_options, check_deb, check_file, check_file_s, check_all, parse_jobs, the -j normalisation of main) and its vocabulary Model/CliPy.v (io = lines written + Ret/Raise, posixpath.join, options record); the real checker, subprocesses, TemporaryDirectory, os.walk, islink/isfile, the executor, tags.get_tag and Tag.format are oracle arguments',
]
ASSUME = ['"diagnostics about the charset itself" = non-portable-encoding, unknown-encoding, broken-encoding, non-ascii-compatible-encoding, '
          'unrepresentable-characters, invalid-content-type, boilerplate-in-content-type (filtered before comparing transcoded pairs)',
          'format-specific difference between PO and MO: a missing POT-Creation-Date is tolerated in MO files']

CHARSET_TAGS = {'non-portable-encoding', 'unknown-encoding', 'broken-encoding', 'non-ascii-compatible-encoding', 'unrepresentable-characters',
                'invalid-content-type', 'boilerplate-in-content-type'}


def have(tool):
    return shutil.which(tool) is not None


# ---------------------------------------------------------------- content-level catalogs (syntactically valid, Latin-2 repertoire)
def content_catalog(rng, po_only_features=True):
    cat = copy.deepcopy(pogen.base_catalog())
    cat['header_comments'] = cat['header_comments'] if po_only_features else []
    ents = []
    words = ['Zażółć', 'gęślą', 'jaźń', 'quick', 'fox', 'Příliš', 'žluťoučký', 'kůň', 'x', 'árvíztűrő', 'PÓŁNOC', 'CÓŻ', 'ÓŁ']   # the last three: Latin-2 byte pairs that are also valid UTF-8
    for i in range(rng.randrange(1, 7)):
        src = ' '.join(rng.choice(words[3:5] + ['dog']) for _ in range(rng.randrange(1, 5))) + ' %d' % i
        dst = ' '.join(rng.choice(words) for _ in range(rng.randrange(1, 5)))
        e = {'msgid': src, 'msgstr': dst}
        r = rng.random()
        if r < 0.2:
            e['msgid'] = src + ' %s'
            e['msgstr'] = dst + rng.choice([' %s', ' %d', '', ' %s %s'])
            if po_only_features:
                e['flags'] = ['c-format']
        elif r < 0.3:
            e['msgstr'] = dst + '\n'
        elif r < 0.4:
            e['msgid'] = '\n' + src
        elif r < 0.5:
            e['msgstr'] = dst + rng.choice([' \x7f', ' �', ' \x01', ' \rx', '\tx', ' a\x0cb', ' \x0bz', ' \x07', 'a\rb\rc'])
        elif r < 0.6:
            # a context (and sometimes a msgid) with non-ASCII text that a diagnostic quotes: decoding differences become visible
            e['msgctxt'] = rng.choice(['menu', 'ctx ąę', 'PÓŁNOC', 'CÓŻ'])
            if rng.random() < 0.7:
                e['msgstr'] = dst + '\n'
            if rng.random() < 0.4:
                e['msgid'] = rng.choice(['PÓŁNOC', 'CÓŻ to', 'ÓŁ']) + ' %d' % i
        elif r < 0.7:
            e = {'msgid': src, 'msgid_plural': src + 's', 'msgstr_plural': [dst, dst + ' b', dst + ' c'][:rng.choice([2, 3, 3])]}
            if po_only_features and rng.random() < 0.3:
                e['flags'] = ['range:0..3']      # msgcat drops range flags of non-plural messages: only used on plural ones
        elif r < 0.75:
            e['msgstr'] = '#-#-#-#-#  a.po  #-#-#-#-#\n' + dst
        elif r < 0.8 and po_only_features:
            e['flags'] = [rng.choice(['fuzzy', 'no-wrap', 'python-format'])]   # msgcat drops unknown *-format flags: not used here
        ents.append(e)
    if not po_only_features:
        # MO files store entries sorted by key; entry order is content (first-occurrence diagnostics name the first entry), so the PO side uses the same order
        ents.sort(key=lambda e: ((e['msgctxt'] + '\x04') if e.get('msgctxt') is not None else '') + e['msgid'])
    cat['entries'] = ents
    # header-level content problems
    for _ in range(rng.randrange(0, 4)):
        f = rng.choice(['Project-Id-Version', 'Report-Msgid-Bugs-To', 'PO-Revision-Date', 'POT-Creation-Date', 'Last-Translator', 'Language-Team', 'Language',
                        'MIME-Version', 'Content-Transfer-Encoding', 'Plural-Forms'])
        r = rng.random()
        if r < 0.4:
            cat['header'] = [(k, v) for (k, v) in cat['header'] if k != f]
        else:
            vals = {'Project-Id-Version': ['PACKAGE VERSION', 'gizmo'], 'Report-Msgid-Bugs-To': ['', 'bugs@localhost', 'x'],
                    'PO-Revision-Date': ['2012-11-01 14:42', 'YEAR-MO-DA HO:MI+ZONE', '2112-11-01 14:42+0100'], 'POT-Creation-Date': ['1990-01-01 00:00+0000', '2012-11-01 14:42', 'YEAR-MO-DA HO:MI+ZONE', '2112-11-01 14:42+0100', 'garbage'],
                    'Last-Translator': ['FULL NAME <EMAIL@ADDRESS>', 'Jakub'], 'Language-Team': ['Jakub Wilk <jwilk@jwilk.net>', 'none'],
                    'Language': ['pl_PL', 'pol', 'de', 'Polish'], 'MIME-Version': ['1.1'], 'Content-Transfer-Encoding': ['7bit'],
                    'Plural-Forms': ['nplurals=2; plural=n != 1;', 'nplurals=3; plural=n/0;', 'nplurals=4; plural=n%3;']}[f]
            pogen.set_header(cat, f, rng.choice(vals))
    return cat


def respell(text, rng, wrap=True, blank=True, octal=True, enc='utf-8'):
    """an independent re-spelling of PO text produced by pogen.render: re-wrap msgid/msgstr strings (not header lines),
    add blank lines, spell some non-ASCII characters as octal or hexadecimal escapes of their bytes (hex escapes of any length: gettext
    takes every hex digit and keeps the low 8 bits; never right before a literal hex digit, which would be one more digit)"""
    out = []
    in_header = False
    for line in text.split('\n'):
        if line.startswith('msgid ""') and not out_has_entries(out):
            in_header = True
        if line == '' and in_header:
            in_header = False
        is_str_line = (line.startswith('"') or line.startswith('msgid "') or line.startswith('msgstr') or line.startswith('msgctxt "') or line.startswith('msgid_plural "'))
        if is_str_line and not in_header and '"' in line:
            head, _, rest = line.partition('"')
            body = rest[:-1]
            if octal:
                # control characters written with a named escape by the renderer, written literally here (a lone CR, TAB, FF, VT, BEL, BS inside a string)
                RAW = {'r': '\r', 't': '\t', 'a': '\x07', 'b': '\x08', 'f': '\x0c', 'v': '\x0b'}
                body = re.sub(r'(?<!\\)((?:\\\\)*)\\([rtabfv])', lambda m: (m.group(1) + RAW[m.group(2)]) if rng.random() < 0.7 else m.group(0), body)
                pieces = []
                for k, ch in enumerate(body):
                    if not (ord(ch) > 127 and rng.random() < 0.7):
                        pieces.append(ch)
                        continue
                    bs = ch.encode(enc)
                    form = rng.random()
                    if form < 0.6 or body[k + 1:k + 2] in tuple(gettext_ref.HEXD):
                        pieces.append(('\\%03o' * len(bs)) % tuple(bs))
                    elif form < 0.8:
                        pieces.append(''.join(rng.choice(['\\x%02x', '\\x%02X']) % x for x in bs))
                    else:
                        pieces.append(''.join('\\x' + rng.choice(['0', '00', '000a', 'FF', '1b3']) + rng.choice(['%02x', '%02X']) % x for x in bs))
                body = ''.join(pieces)
            if wrap and len(body) > 3 and rng.random() < 0.6:
                # split at a safe point: not inside an escape sequence
                cuts = [i for i in range(1, len(body)) if body[i - 1] != '\\' and not (i >= 2 and body[i - 2] == '\\') and not (i >= 3 and body[i - 3] == '\\') and not (i >= 4 and body[i - 4] == '\\') and body[i] != '\\' or False]
                cuts = [i for i in cuts if '\\' not in body[max(0, i - 4):i]]
                spans = gettext_ref.escape_spans(body)
                cuts = [i for i in cuts if not any(a < i < b for (a, b) in spans)]     # a hex escape may be longer than four characters
                if cuts:
                    c = rng.choice(cuts)
                    out.append(head + '""' if head.strip() else '"%s"' % body[:c])
                    if head.strip():
                        out.append('"%s"' % body[:c])
                    out.append('"%s"' % body[c:])
                    continue
            out.append(head + '"' + body + '"')
        else:
            out.append(line)
            if blank and line == '' and rng.random() < 0.3:
                out.append('')
    return '\n'.join(out)


def out_has_entries(out):
    return any(l.startswith('msgid') for l in out)


def tags_of(path, file_type=None):
    from harness import impl_checker as IC
    cls = IC.get_checker_class()
    chk = cls(path, options=IC.make_options(file_type=file_type))
    chk.check()
    return [(n, tuple(str(x) if not isinstance(x, bytes) else repr(x) for x in e)) for (n, e) in chk.recorded]


def job_po(payload):
    """returns None or a description of a difference between two spellings of one catalog"""
    idx, text, seed = payload
    import random
    rng = random.Random(seed)
    d = os.path.join(common.WORK, 'c17', 'p%d_%d' % (os.getpid(), idx))
    os.makedirs(os.path.join(d, 'a'), exist_ok=True)
    os.makedirs(os.path.join(d, 'b'), exist_ok=True)
    pa = os.path.join(d, 'a', 'messages.po')
    pb = os.path.join(d, 'b', 'messages.po')
    try:
        with open(pa, 'w', encoding='utf-8') as f:
            f.write(text)
        ta = tags_of(pa)
        variants = [('respell', respell(text, rng).encode('utf-8'))]
        try:
            l2 = text.replace('charset=UTF-8', 'charset=ISO-8859-2').encode('iso-8859-2')
            variants.append(('latin2', l2))
            variants.append(('latin2+respell', respell(text.replace('charset=UTF-8', 'charset=ISO-8859-2'), rng, octal=False).encode('iso-8859-2')))
            variants.append(('latin2+octal-escapes', respell(text.replace('charset=UTF-8', 'charset=ISO-8859-2'), rng, wrap=False, enc='iso-8859-2').encode('iso-8859-2')))
        except UnicodeEncodeError:
            pass
        if have('msgcat'):
            for name, args in (('msgcat-no-wrap', ['--no-wrap']), ('msgcat-latin2', ['--no-wrap', '--to-code=ISO-8859-2'])):   # msgcat --width would also wrap inside header field lines, which the property excludes
                p = subprocess.run(['msgcat'] + args + [pa], stdout=subprocess.PIPE, stderr=subprocess.PIPE, timeout=60)
                if p.returncode == 0 and p.stdout:
                    variants.append((name, p.stdout))
        res = []
        for name, data in variants:
            with open(pb, 'wb') as f:
                f.write(data)
            tb = tags_of(pb)
            if gettext_ref.has_long_hex(data.decode('latin-1')):
                name += ':D29'      # the variant spells a hex escape of more than two digits
            transcoded = 'latin2' in name
            fa = [t for t in ta if not (transcoded and t[0] in CHARSET_TAGS)]
            fb = [t for t in tb if not (transcoded and t[0] in CHARSET_TAGS)]
            if name.startswith('msgcat'):
                # msgcat normalises the header comment block / drops nothing else; boilerplate comments are PO surface it may rewrite
                pass
            if fa != fb:
                res.append((name, [t for t in fa if t not in fb][:3], [t for t in fb if t not in fa][:3]))
        return ('ok', len(variants), res)
    except Exception as e:  # noqa
        return ('error', type(e).__name__ + ': ' + str(e)[:200], [])
    finally:
        shutil.rmtree(d, ignore_errors=True)


# msgstr values of the PO-vs-MO probes (UTF-8 file; the escaped bytes spell UTF-8): hex escapes of 1, 2 and more digits, mixed with octal, either
# case, before a non-hex letter, at the end of the string, after an escaped backslash (a backslash and the literal text x41BC)
HEX_PROBES = ['a\\x0c3\\x8b', '\\x41C2\\x0BC', '\\x0041', '\\xc3\\xa9', '\\x00c3\\x00A9', '\\xfC3\\251z', '\\303\\x1A9', '\\\\x41BC', '\\\\\\x41C3\\x0A9', '\\x5\\x6',
              '\\x41\\x42C\\101', '\\x7e\\x07E', '\\xE2\\x82\\xAC', '\\x0e2\\x082\\x0ac!', 'a\\x00c3\\x8Bz']


def job_mo(payload):
    idx, text = payload
    d = os.path.join(common.WORK, 'c17', 'm%d_%d' % (os.getpid(), idx))
    os.makedirs(d, exist_ok=True)
    try:
        po = os.path.join(d, 'messages.po')
        with open(po, 'w', encoding='utf-8') as f:
            f.write(text)
        outs = {}
        for name, args in (('little', ['--endianness=little']), ('big', ['--endianness=big']), ('nohash', ['--no-hash']), ('align8', ['--alignment=8'])):
            sub = os.path.join(d, name)
            os.makedirs(sub, exist_ok=True)
            mo = os.path.join(sub, 'messages.mo')
            p = subprocess.run(['msgfmt'] + args + ['-o', mo, po], stdout=subprocess.PIPE, stderr=subprocess.PIPE, timeout=60)
            if p.returncode != 0 or not os.path.exists(mo):
                return ('skipped', p.stderr.decode('utf-8', 'replace')[:100], [])
            outs[name] = tags_of(mo)
        # the same key/value pairs written in other legal layouts by the harness's own serialiser (tools/harness/mo_lib.py):
        # tables last / first / between the string pools, padding, shared suffixes, shuffled strings, either byte order, minor 0/1
        try:
            from harness import mo_lib
            import random
            lrng = random.Random(idx)
            data = open(os.path.join(d, 'little', 'messages.mo'), 'rb').read()
            rr = mo_lib.ref_read(data)
            if rr[0] == 'ok':
                kvs = [(data[ko:ko + kl], data[vo:vo + vl]) for (kl, ko, vl, vo) in rr[2]]
                orders = [('poolA', 'poolB', 'hash', 'otab', 'ttab'), ('otab', 'poolA', 'ttab', 'poolB', 'hash'), ('hash', 'poolB', 'ttab', 'poolA', 'otab'),
                          ('poolA', 'otab', 'poolB', 'ttab', 'hash')]
                for k, order in enumerate(orders):
                    L = mo_lib.Layout(be=bool(k % 2), major=0, minor=k % 2, sysdep=0, hash_words=[0, 3][k % 2], order=order, pad=[0, 5][k // 2],
                                      share=bool(k // 2), shuffle=bool(k % 2), header_extra=0, trailing=[0, 0, 3, 0][k])
                    blob, _info = mo_lib.serialise(kvs, L, lrng)
                    sub = os.path.join(d, 'layout%d' % k)
                    os.makedirs(sub, exist_ok=True)
                    with open(os.path.join(sub, 'messages.mo'), 'wb') as f:
                        f.write(blob)
                    outs['layout%d' % k] = tags_of(os.path.join(sub, 'messages.mo'))
                # msgfmt drops POT-Creation-Date; an MO file that KEEPS the field (older msgfmt, other tools) must get the PO file's verdict on it:
                # only a MISSING POT-Creation-Date is tolerated in MO files
                import re as _re
                m = _re.search(r'^"(POT-Creation-Date: [^"\\]*)\\n"$', text, flags=_re.M)
                if m and kvs and kvs[0][0] == b'' and b'POT-Creation-Date' not in kvs[0][1]:
                    line = m.group(1).encode('utf-8') + b'\n'
                    hv = kvs[0][1]
                    at = hv.find(b'PO-Revision-Date:')
                    hv2 = hv[:at] + line + hv[at:] if at >= 0 else line + hv
                    blob, _info = mo_lib.serialise([(b'', hv2)] + kvs[1:], mo_lib.Layout(be=False), lrng)
                    sub = os.path.join(d, 'withpot')
                    os.makedirs(sub, exist_ok=True)
                    with open(os.path.join(sub, 'messages.mo'), 'wb') as f:
                        f.write(blob)
                    outs['withpot'] = tags_of(os.path.join(sub, 'messages.mo'))
        except ImportError:
            pass
        res = []
        for name in ('big', 'nohash', 'align8', 'layout0', 'layout1', 'layout2', 'layout3'):
            if name not in outs:
                continue
            if outs[name] != outs['little']:
                res.append(('mo-layout:' + name, [t for t in outs['little'] if t not in outs[name]][:3], [t for t in outs[name] if t not in outs['little']][:3]))
        # PO vs MO
        tp = tags_of(po)
        tm = outs['little']
        # msgfmt >= 0.20 removes the POT-Creation-Date field from the MO file: everything about that field is format-specific
        potc = lambda t: bool(t[1]) and str(t[1][0]).startswith('POT-Creation-Date')
        tp_f = [t for t in tp if not potc(t)]
        tm_f = [t for t in tm if not potc(t)]
        d29 = gettext_ref.has_long_hex(text)
        if sorted(tp_f) != sorted(tm_f):
            res.append(('po-vs-mo' + (':D29' if d29 else ''), [t for t in tp_f if t not in tm_f][:3], [t for t in tm_f if t not in tp_f][:3]))
        if 'withpot' in outs and sorted(tp) != sorted(outs['withpot']):
            res.append(('po-vs-mo:mo-keeps-pot-creation-date' + (':D29' if d29 else ''), [t for t in tp if t not in outs['withpot']][:3], [t for t in outs['withpot'] if t not in tp][:3]))
        return ('ok', 4, res)
    except Exception as e:  # noqa
        return ('error', type(e).__name__ + ': ' + str(e)[:200], [])
    finally:
        shutil.rmtree(d, ignore_errors=True)


def run_cli(args, cwd, env_extra=None):
    env = dict(os.environ)
    env.update({'PYTHONPATH': common.REPO, 'PYTHONHASHSEED': '0', 'LC_ALL': 'C.UTF-8'})
    if env_extra:
        env.update(env_extra)
    p = subprocess.run([common.PY, os.path.join(common.REPO, 'i18nspector')] + args, cwd=cwd, env=env, stdout=subprocess.PIPE, stderr=subprocess.PIPE, timeout=300)
    return p.stdout.decode('utf-8', 'replace'), p.stderr.decode('utf-8', 'replace'), p.returncode


def _write_dsc(root, tree, idx):
    """a "3.0 (native)" source package whose tarball holds the same tree (plus debian/)"""
    import hashlib
    import tarfile
    src = os.path.join(root, 'src', 'verif-test%d-1.0' % idx)
    shutil.copytree(tree, src, symlinks=True, ignore=shutil.ignore_patterns('DEBIAN'))
    os.makedirs(os.path.join(src, 'debian', 'source'))
    with open(os.path.join(src, 'debian', 'changelog'), 'w') as f:
        f.write('verif-test%d (1.0) unstable; urgency=low\n\n  * x\n\n -- X <x@example.org>  Thu, 01 Nov 2012 14:42:00 +0100\n' % idx)
    with open(os.path.join(src, 'debian', 'control'), 'w') as f:
        f.write('Source: verif-test%d\nMaintainer: X <x@example.org>\n\nPackage: verif-test%d\nArchitecture: all\nDescription: test\n' % (idx, idx))
    with open(os.path.join(src, 'debian', 'source', 'format'), 'w') as f:
        f.write('3.0 (native)\n')
    with open(os.path.join(src, 'debian', 'rules'), 'w') as f:
        f.write('#!/usr/bin/make -f\n%:\n\ttrue\n')
    os.chmod(os.path.join(src, 'debian', 'rules'), 0o755)
    tarname = 'verif-test%d_1.0.tar.gz' % idx
    with tarfile.open(os.path.join(root, tarname), 'w:gz') as tar:
        tar.add(src, arcname=os.path.basename(src))
    data = open(os.path.join(root, tarname), 'rb').read()
    dsc = os.path.join(root, 'verif-test%d_1.0.dsc' % idx)
    with open(dsc, 'w') as f:
        f.write('Format: 3.0 (native)\nSource: verif-test%d\nBinary: verif-test%d\nArchitecture: all\nVersion: 1.0\nMaintainer: X <x@example.org>\n'
                'Standards-Version: 4.6.2\nChecksums-Sha256:\n %s %d %s\nFiles:\n %s %d %s\n'
                % (idx, idx, hashlib.sha256(data).hexdigest(), len(data), tarname, hashlib.md5(data).hexdigest(), len(data), tarname))
    return dsc


def deb_case(ctx, idx, rng):
    """build a .deb with dpkg-deb (and a native .dsc holding the same tree) from a generated tree; compare --unpack-deb with per-member runs"""
    root = os.path.join(common.WORK, 'c17', 'deb%d' % idx)
    tree = os.path.join(root, 'tree')
    os.makedirs(os.path.join(tree, 'DEBIAN'))
    with open(os.path.join(tree, 'DEBIAN', 'control'), 'w') as f:
        f.write('Package: verif-test%d\nVersion: 1.0\nArchitecture: all\nMaintainer: X <x@example.org>\nDescription: test\n' % idx)
    members = []
    for k in range(rng.randrange(1, 6)):
        sub = rng.choice(['usr/share/locale/pl/LC_MESSAGES', 'usr/share/locale/de/LC_MESSAGES', 'usr/share/doc/x', 'opt/a b', 'usr/share/po'])
        os.makedirs(os.path.join(tree, sub), exist_ok=True)
        kind = rng.choice(['po', 'pot', 'mo', 'txt', 'po'])
        name = '%s/f%d.%s' % (sub, k, kind)
        cat = content_catalog(rng)
        text = pogen.render(cat)
        if kind == 'mo' and have('msgfmt'):
            tmp = os.path.join(root, 'tmp.po')
            with open(tmp, 'w', encoding='utf-8') as f:
                f.write(pogen.render(content_catalog(rng, po_only_features=False)))
            p = subprocess.run(['msgfmt', '-o', os.path.join(tree, name), tmp], stdout=subprocess.PIPE, stderr=subprocess.PIPE)
            if p.returncode != 0:
                # msgfmt may leave an output file behind even when it reports an error: the member is dropped from the package
                if os.path.exists(os.path.join(tree, name)):
                    os.remove(os.path.join(tree, name))
                continue
        else:
            with open(os.path.join(tree, name), 'w', encoding='utf-8') as f:
                f.write(text if kind != 'txt' else 'hello\n')
        members.append(name)
    # members the loaders reject: their diagnostics must be the ones of the extracted file too
    if idx % 2 == 0:
        os.makedirs(os.path.join(tree, 'usr/share/po'), exist_ok=True)
        broken = {'usr/share/po/broken%d.po' % idx: (pogen.render(content_catalog(rng)) + '\nmsgid "x"\nfoo bar\n').encode(),
                  'usr/share/po/broken%dq.po' % idx: (pogen.render(content_catalog(rng)) + '\nmsgid "a"b"\nmsgstr ""\n').encode(),
                  'usr/share/po/broken%d.mo' % idx: b'\xde\x12\x04\x95\x00\x00\x00\x00\x05\x00\x00\x00junk',
                  'usr/share/po/broken%db.po' % idx: b'msgid ""\nmsgstr ""\n"Content-Type: text/plain; charset=UTF-8\\n"\n\nmsgid "a"\nmsgstr "\xff"\n',
                  'usr/share/po/empty%d.pot' % idx: b''}
        for name, data in broken.items():
            with open(os.path.join(tree, name), 'wb') as f:
                f.write(data)
            members.append(name)
    if rng.random() < 0.5 and members:
        os.symlink(os.path.basename(members[0]), os.path.join(tree, os.path.dirname(members[0]), 'link.po'))
    deb = os.path.join(root, 'pkg%d.deb' % idx)
    p = subprocess.run(['dpkg-deb', '--root-owner-group', '-b', tree, deb], stdout=subprocess.PIPE, stderr=subprocess.PIPE)
    if p.returncode != 0:
        return 'skipped: dpkg-deb: ' + p.stderr.decode()[:100]
    packages = [deb]
    if have('dpkg-source'):
        packages.append(_write_dsc(root, tree, idx))
    # per-member runs on the tree
    per_member = {}
    for m in members:
        if m.endswith('.txt'):
            continue
        per_member[m] = run_cli([m], tree)[0]
    problems = []
    for pkg in packages:
        tmpdir = os.path.join(root, 'tmp-' + os.path.basename(pkg))
        os.makedirs(tmpdir)
        # the package is named by a bare file name, by a path with a directory, or by an absolute path: members are printed under the name as given
        how = idx % 3
        if how == 0:
            what, cwd = os.path.basename(pkg), root
        elif how == 1:
            what, cwd = os.path.join(os.path.basename(root), os.path.basename(pkg)), os.path.dirname(root)
        else:
            what, cwd = pkg, root
        out, err, rc = run_cli(['--unpack-deb', what], cwd, {'TMPDIR': tmpdir})
        left = os.listdir(tmpdir)
        # path rewritten to <package>/<member>
        exp = {m: o.replace(': %s: ' % m, ': %s/%s: ' % (what, m)) for m, o in per_member.items()}
        got_lines = sorted(out.split('\n')[:-1])
        exp_lines = sorted(l for o in exp.values() for l in o.split('\n')[:-1])
        if rc != 0 or err:
            problems.append('%s: rc=%d stderr=%r' % (what, rc, err[-200:]))
        if got_lines != exp_lines:
            problems.append('%s: diagnostics differ: only with --unpack-deb %r ; only per-member %r' % (what, [l for l in got_lines if l not in exp_lines][:2], [l for l in exp_lines if l not in got_lines][:2]))
        # grouping: the lines of one member are contiguous and in the member's own order
        for m, o in exp.items():
            ls = o.split('\n')[:-1]
            allg = out.split('\n')[:-1]
            if ls:
                try:
                    i = allg.index(ls[0])
                    if allg[i:i + len(ls)] != ls:
                        problems.append('%s: lines of member %s are not contiguous / ordered' % (what, m))
                except ValueError:
                    pass
        if left:
            problems.append('%s: temporary files left behind: %r' % (what, left[:3]))
    shutil.rmtree(root, ignore_errors=True)
    return '; '.join(problems) if problems else None


def check(ctx):
    build = common.coq_build()
    aud = common.audit(ctx.id, coqchk=not ctx.quick())
    rng = ctx.rng
    shutil.rmtree(os.path.join(common.WORK, 'c17'), ignore_errors=True)
    os.makedirs(os.path.join(common.WORK, 'c17'))
    ctx.stats['tools'] = {t: have(t) for t in ('msgcat', 'msgfmt', 'dpkg-deb', 'dpkg-source')}
    # D29 is tagged as a finding only while KNOWN_FINDINGS.jsonl lists it as known for this property; afterwards such a failure is a violation
    d29_known = any(k.get('id') == 'D29' and k.get('property') == ctx.id and k.get('status') == 'known' for k in common.load_known_findings())
    # ---- PO spellings
    n = 150 if ctx.quick() else 4000
    payloads = [(i, pogen.render(content_catalog(rng)), rng.randrange(1 << 30)) for i in range(n)]
    results = common.pmap('harness.c17', 'job_po', payloads, per_case_timeout=300)
    for (i, text, seed), r in zip(payloads, results):
        if not isinstance(r, tuple):
            ctx.count('po:' + str(r))
            continue
        status, info, diffs = r
        ctx.count('po:' + status)
        if status == 'ok':
            ctx.evaluations += info
            ctx.nontriv(('po', text))
            for (name, only_a, only_b) in diffs:
                ctx.fail('po-spelling', {'variant': name, 'catalog': text[:2500], 'respell_seed': seed}, 'diagnostics differ between two spellings of one catalog: only original %r ; only variant %r' % (only_a, only_b),
                         finding='D29' if d29_known and name.endswith(':D29') else None)
        elif status == 'error':
            ctx.count('po-error:' + info[:60])
    # ---- transcoding to EVERY supported charset able to represent the catalog (the tool's own codecs included), charset field adjusted
    from lib import encodings as E
    texts = {'vi': ['Tiếng Việt', 'Ẳn Ẵ Ẫ', 'Ỷ Ỹ Ỵ đường'], 'pl': ['Zażółć', 'gęślą jaźń'], 'ru': ['Съешь ещё', 'булок'], 'ka': ['ქართული', 'ენა'],
             'zh': ['中文', '語言'], 'el': ['Ελληνικά', 'γλώσσα'], 'tg': ['Тоҷикӣ', 'қӯҳ'], 'west': ['café', 'Größe naïve']}
    all_cs = sorted(set(E.get_portable_encodings(python=False)) | {x.upper() for x in getattr(E, '_extra_encodings', ())})
    ntrans = 0
    for lang, words in sorted(texts.items()):
        cat = copy.deepcopy(pogen.base_catalog())
        cat['entries'] = [{'msgid': 'fox %d', 'msgstr': words[0] + ' %s', 'flags': ['c-format']},                 # a type mismatch the msgstr-level checks must keep finding
                          {'msgid': 'quick', 'msgstr': words[1] + ' \x7f'},                                        # an unusual character
                          {'msgid': 'dog\n', 'msgstr': ' '.join(words)},                                          # inconsistent trailing newline
                          {'msgctxt': words[0], 'msgid': 'ctx', 'msgstr': words[-1] + '\n'}]
        text = pogen.render(cat)
        base = os.path.join(common.WORK, 'c17', 'tr_%s' % lang)
        os.makedirs(os.path.join(base, 'u'), exist_ok=True)
        pu = os.path.join(base, 'u', 'messages.po')
        with open(pu, 'w', encoding='utf-8') as f:
            f.write(text)
        tu = [t for t in tags_of(pu) if t[0] not in CHARSET_TAGS]
        for cs in all_cs:
            try:
                data = text.replace('charset=UTF-8', 'charset=' + cs).encode(cs)
                rep = bytes([0, 4, 7, 8, 9, 10, 11, 12, 13, 27] + list(range(32, 127)))     # the pinned ASCII repertoire (see c20.py)
                if data.decode(cs) != text.replace('charset=UTF-8', 'charset=' + cs) or rep.decode(cs) != rep.decode('ascii'):
                    continue
            except (UnicodeError, LookupError):
                continue
            os.makedirs(os.path.join(base, 'c'), exist_ok=True)
            pc = os.path.join(base, 'c', 'messages.po')
            with open(pc, 'wb') as f:
                f.write(data)
            tc = [t for t in tags_of(pc) if t[0] not in CHARSET_TAGS]
            ctx.evaluations += 1
            ntrans += 1
            ctx.count('transcoded:' + lang)
            if tc != tu:
                ctx.fail('po-spelling', {'variant': 'transcoded to ' + cs, 'catalog': text[:2500]},
                         'diagnostics differ between the UTF-8 spelling and the %s spelling: only UTF-8 %r ; only %s %r' % (
                             cs, [t for t in tu if t not in tc][:3], cs, [t for t in tc if t not in tu][:3]))
            else:
                ctx.nontriv(('tr', lang, cs))
    ctx.stats['transcoded_spellings'] = ntrans
    # ---- MO layouts, PO vs MO
    if have('msgfmt'):
        n2 = 100 if ctx.quick() else 3000
        payloads2 = [(i, pogen.render(content_catalog(rng, po_only_features=False))) for i in range(n2)]
        probe = copy.deepcopy(pogen.base_catalog())
        probe['header_comments'] = []
        probe['entries'] = [{'msgid': 'hex probe', 'msgstr': 'HEXPROBE'}]
        # hex escapes of more than two digits: msgfmt (like C) takes every hex digit and keeps the low 8 bits; the PO loader must read the same bytes
        # (D29 before its repair: FF + "b" instead of U+00CB, "A" + "BC" instead of U+00BC ...).  The file is UTF-8: the escaped bytes spell UTF-8.
        for k, hexprobe in enumerate(HEX_PROBES):
            payloads2.append((n2 + k, pogen.render(probe).replace('HEXPROBE', hexprobe)))
        results2 = common.pmap('harness.c17', 'job_mo', payloads2, per_case_timeout=300)
        for (i, text), r in zip(payloads2, results2):
            if not isinstance(r, tuple):
                ctx.count('mo:' + str(r))
                continue
            status, info, diffs = r
            ctx.count('mo:' + status)
            if status == 'ok':
                ctx.evaluations += info
                ctx.nontriv(('mo', text))
                for (name, only_a, only_b) in diffs:
                    ctx.fail('mo-layout' if name.startswith('mo-layout') else 'po-vs-mo', {'variant': name, 'catalog': text[:2500]},
                             'diagnostics differ: only first %r ; only second %r' % (only_a, only_b), finding='D29' if d29_known and name.endswith(':D29') else None)
    # ---- Debian packages
    if have('dpkg-deb'):
        for k in range(4 if ctx.quick() else 60):
            v = deb_case(ctx, k, rng)
            ctx.evaluations += 1
            if v is None:
                ctx.count('deb:ok')
                ctx.nontriv(('deb', k))
            elif v.startswith('skipped'):
                ctx.count('deb:skipped')
            else:
                ctx.fail('unpack-deb', {'case': k, 'seed': ctx.seed}, v)
    ctx.samples = [{'catalog': payloads[0][1][:400]}]
    shutil.rmtree(os.path.join(common.WORK, 'c17'), ignore_errors=True)
    return common.finish(
        ctx, 'other', build, aud, TRUSTED, ASSUME,
        checker_cmd='tools/build.sh (coqc on Props/C17.v) then coqc Audit_C17.v (Print Assumptions)',
        rule='metamorphic pairs through the real checker: (1) one content-level catalog (Latin-2 repertoire, header and message problems) spelled by pogen, by the harness re-speller '
             '(re-wrapping outside header lines, octal escapes of UTF-8 bytes, blank lines), transcoded to ISO-8859-2, and by msgcat --no-wrap / --to-code; '
             '(2) msgfmt little / big endian / --no-hash / --alignment=8; (3) PO vs its MO (only the POT-Creation-Date exemption may differ); (4) .deb packages built with dpkg-deb: '
             '--unpack-deb output == per-member outputs under <package>/<member>, contiguous per member, nothing for other members, TMPDIR empty afterwards. '
             'non-trivial = distinct catalog / package that went through all its variants',
        explanation='Partial: fake_path is specified and proved; spelling/layout independence is a corollary of C10/C08 for the loaders and is explored end to end here; unpacking, os.walk and '
                    'temporary-directory removal are runtime behaviour, explored only.')

"""Case streams over plural expressions for C05/C06 (analysis vs brute force)."""
from harness import intexpr_lib as L


def leaves_for(bits):
    M = 1 << bits
    return sorted({0, 1, 2, 3, M - 1, M})


def analysis_cases(ctx, corpus_exprs):
    """list of (bits, expression string, origin)"""
    rng = ctx.rng
    cases = []
    for s in corpus_exprs:
        for b in (1, 2, 3, 4, 5, 6, 8, 32, 33, 64):
            cases.append((b, s, 'corpus'))
    # small-scope exhaustive
    ss_ops = 1
    for b in (1, 2, 3, 4):
        lv = ['n'] + leaves_for(b)
        for k in range(ss_ops + 1):
            for t in L.all_trees(k, lv):
                cases.append((b, L.show(t, 'min'), 'ss%d' % k))
    # two-operator trees: sampled in quick, exhaustive for b <= 2 in thorough
    if ctx.quick():
        for b in (1, 2, 3, 4):
            lv = ['n'] + leaves_for(b)
            pool = list(L.all_trees(2, lv))
            for t in rng.sample(pool, 2500):
                cases.append((b, L.show(t, 'min'), 'ss2-sample'))
    else:
        for b in (1, 2, 3):
            lv = ['n'] + leaves_for(b)
            for t in L.all_trees(2, lv):
                cases.append((b, L.show(t, 'min'), 'ss2'))
    nrand = 6000 if ctx.quick() else 150000
    widths = [1, 2, 3, 4, 5, 6, 7, 8, 32, 33, 40, 64]
    for i in range(nrand):
        b = widths[i % len(widths)]
        M = 1 << b
        lv = leaves_for(b) + [rng.randrange(0, M + 2), rng.randrange(0, M + 2), 5, 7, 10, 100]
        t = L.rand_tree(rng, rng.randrange(2, 7), lv)
        cases.append((b, L.show(t, 'rand', rng), 'random'))
    return cases


REGISTRY_LIKE = [
    '0', 'n != 1', 'n > 1', 'n%10==1 && n%100!=11 ? 0 : n%10>=2 && n%10<=4 && (n%100<10 || n%100>=20) ? 1 : 2',
    'n==1 ? 0 : n%10>=2 && n%10<=4 && (n%100<10 || n%100>=20) ? 1 : 2',
    'n==0 ? 0 : n==1 ? 1 : n==2 ? 2 : n%100>=3 && n%100<=10 ? 3 : n%100>=11 ? 4 : 5',
    '(n==1) ? 0 : (n>=2 && n<=4) ? 1 : 2', 'n%100==1 ? 0 : n%100==2 ? 1 : n%100==3 || n%100==4 ? 2 : 3',
    'n/0', 'n%0', '4294967295+1', '0&&(1/0)', '1||(1/0)', 'n-1', 'n*n', 'n+n', '!n', 'n ? 1/0 : 2', '(n<2)-1',
    'n/n', 'n%n', '0-n', 'n==n', '2*n%3', 'n%3==1 || n%4==2', 'n > 5 && n%2', '!(n%7) ? n%5 : n%3',
]

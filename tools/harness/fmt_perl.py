"""perl-brace half of C13: implementation runner, reference (the property's own predicate), streams."""
import itertools
import re

from common import enc_str

ALPHA = ['{', '}', '0', 'a', '_', 'é', '²', '٣', ' ', '\n']
_IDENT = re.compile(r'[^\W\d]\w*')


def line(s):
    return 'perlbrace ' + enc_str(s)


def impl(s):
    from lib.strformat import perlbrace as M
    try:
        f = M.FormatString(s)
    except M.Error as e:
        if type(e) is not M.Error or len(e.args) != 1 or not isinstance(e.args[0], str):
            return 'err %s %r' % (type(e).__name__, e.args)
        return 'err Error ' + enc_str(e.args[0])
    except Exception as e:  # noqa
        return 'crash ' + type(e).__name__
    items = []
    for it in f:
        items.append(('F' + enc_str(it[1:-1])) if it.startswith('{') else ('L' + enc_str(it)))
    return 'ok ' + ' '.join(items) + ' | ' + ' '.join(enc_str(n) for n in sorted(f.arguments))


def reference(s):
    """None if some "{" does not open a {identifier}; else the set of identifiers.  Written from the
    property statement: no use of the implementation's pattern."""
    names = set()
    i = 0
    n = len(s)
    while i < n:
        if s[i] != '{':
            i += 1
            continue
        j = s.find('}', i)
        if j < 0:
            return None
        name = s[i + 1:j]
        if not _IDENT.fullmatch(name):
            return None
        names.add(name)
        i = j + 1
    return names


def oracle(s):
    """the property on the implementation, independent of the model; None or a description"""
    r = impl(s)
    ref = reference(s)
    if r.startswith('crash'):
        return 'perlbrace.FormatString raised a foreign exception: ' + r
    if r.startswith('ok') != (ref is not None):
        return 'accepted=%s but every-brace-opens-a-placeholder=%s' % (r.startswith('ok'), ref is not None)
    if ref is not None:
        got = r.split(' | ', 1)[1].split() if ' | ' in r and r.split(' | ', 1)[1] else []
        if got != [enc_str(x) for x in sorted(ref)]:
            return 'reported names %r, identifiers of the decomposition %r' % (got, sorted(ref))
    return None


def cases(ctx):
    rng = ctx.rng
    out = []
    k = 5 if ctx.quick() else 6
    for n in range(k + 1):
        for t in itertools.product(ALPHA, repeat=n):
            out.append(''.join(t))
    pool = ALPHA + ['{a}', '{b_1}', '{été}', 'text', '{{', '}}', '{}', '{a', 'a}', '{1}', '{a b}', '{a}{b}', '\x7f', '\x00', '\U0001d7d8', '①', '½']
    nrand = 20000 if ctx.quick() else 400000
    for _ in range(nrand):
        out.append(''.join(rng.choice(pool) for _ in range(rng.randrange(1, 9))))
    for n in (10, 100, 1000):
        out += ['{' * n, '{a' * n, '{' + 'a' * n, '{a}' * n, 'a' * n + '{', '{' + 'a' * n + '}', '}' * n]
    return list(dict.fromkeys(out))

"""C12: the Python %-format parser is consistent with CPython's % operator.
Three ties, all on the same strings:
  model  (Model/FmtPython.v, extracted)      vs  strformat.python.FormatString
  spec   (Spec/CPyPercent.v, extracted)      vs  the live interpreter's  s % args
  oracle (the property itself)               :   FormatString vs the live interpreter, no Coq artefact involved"""
import itertools
import re

import common
from common import enc_str

TRUSTED = [
    'Coq 8.16.1 kernel (coqc, vm_compute); coqchk in thorough tier',
    'axioms: none (Print Assumptions must report "Closed under the global context" for every theorem of Props/C12.v)',
    'hand-written Gallina model Model/FmtPython.v of lib/strformat/python.py (scanner, add_argument, Conversion.__init__)',
    'Spec/CPyPercent.v: hand-written reading of CPython 3.12 Objects/unicodeobject.c (unicode_format_arg_parse / _format / getnextarg), '
    'validated against the live interpreter on every run (exception class of s % v for a battery of values v)',
    'Generated/PyFmtInfo.v: _info tables and SSIZE_MAX of /repo, regenerated every run; C12_info_sync proves they are the tables the proofs use',
    'extraction (ExtrOcamlBasic only) + ocaml/driver.ml',
    'tools/gen/gen_fmtpython_src.py: python ast -> Gallina translation of FormatString.__init__ / add_argument / Conversion.__init__ '
    '(Generated/FmtPythonSrc.v, rules in its docstring) and its target vocabulary Model/FmtPythonPy.v; C12_source_tie_* prove the translation equal to Model/FmtPython.v',
    'the theorems relate two models; their weight rests on both correspondences',
]
ASSUME = ['values: int, finite float, str, None, tuple, dict with str keys (no user classes with __index__/__float__/__getitem__)',
          'memory is not modelled: a literal width/precision up to 2^31-1 is "formattable" although CPython may raise MemoryError',
          '"int for every *" is read as an int that fits a C int (CPython raises OverflowError beyond Py_ssize_t / int)']

ALPHA = ['%', '(', ')', '*', '.', '1', 'h', 'd', 's', 'c', 'r', '#', ' ', 'x']
PARSE_MSG = ('incomplete format', 'unsupported format character', 'width too big', 'precision too big')


# ---------------------------------------------------------------- implementation runner
def impl(s):
    from lib.strformat import python as M
    try:
        f = M.FormatString(s)
    except M.Error as e:
        if type(e) is M.Error:
            return 'err Error ' + (enc_str(e.args[0]) if len(e.args) == 1 and isinstance(e.args[0], str) else repr(e.args))
        return 'err ' + type(e).__name__
    except Exception as e:  # noqa
        return 'crash ' + type(e).__name__
    seq = []
    for a in f.seq_arguments:
        if isinstance(a, M.VariableWidth):
            seq.append('*w')
        elif isinstance(a, M.VariablePrecision):
            seq.append('*p')
        else:
            seq.append(a.type)
    mp = []
    for k, args in f.map_arguments.items():
        mp.append(enc_str(k) + '=' + '+'.join(a.type for a in args))
    ws = []
    for w in f.warnings:
        if type(w) is M.RedundantFlag:
            ws.append('F' + '.'.join(str(ord(c)) for c in w.args[1:]))
        elif type(w) is M.RedundantPrecision:
            ws.append('P')
        elif type(w) is M.RedundantLength:
            ws.append('L%d' % ord(w.args[1]))
        elif type(w) is M.ObsoleteConversion:
            ws.append('O')
        else:
            ws.append('?' + type(w).__name__)
    return 'ok S:%s M:%s W:%s' % (','.join(seq), ';'.join(mp), ';'.join(ws))


# ---------------------------------------------------------------- the live interpreter
class AnyMap(dict):
    def __missing__(self, k):
        return 65


def heavy(s):
    """a literal width/precision that would make the interpreter allocate a lot: never formatted live.
    Numbers the parsing code itself refuses (width > PY_SSIZE_T_MAX, precision > INT_MAX) are harmless."""
    for m in re.finditer(r'(\.?)([0-9]+)', s):
        v = int(m.group(2))
        if v > 10 ** 6 and v <= ((1 << 31) - 1 if m.group(1) else (1 << 63) - 1):
            return True
    return False


def live_class(s, v):
    try:
        s % v
    except ValueError as e:
        return 'ValueError', str(e)
    except TypeError:
        return 'TypeError', ''
    except KeyError:
        return 'KeyError', ''
    except OverflowError:
        return 'OverflowError', ''
    except Exception as e:  # noqa
        return type(e).__name__, ''
    return 'Success', ''


def live_shapes(s):
    n = s.count('%') + s.count('*')
    return [AnyMap()] + [tuple([65] * k) for k in range(0, n + 1)]


def live_survey(s):
    """(formattable by some shape, rejected as malformed whatever the shape)"""
    ok = False
    parse_err = False
    for v in live_shapes(s):
        c, msg = live_class(s, v)
        if c == 'Success':
            ok = True
        elif c == 'ValueError' and msg.startswith(PARSE_MSG):
            parse_err = True
    return ok, (parse_err and not ok)


def in_domain(s):
    """reference reading of the property's domain: no "%" conversion carries a key, flag, width, precision or length.
    Written from the documented syntax of printf-style formatting, independent of parser and models."""
    i, n = 0, len(s)
    while i < n:
        if s[i] != '%':
            i += 1
            continue
        j = i + 1
        if j < n and s[j] == '(':
            depth = 1
            j += 1
            while j < n and depth:
                depth += {'(': 1, ')': -1}.get(s[j], 0)
                j += 1
            if depth:
                return True
        while j < n and s[j] in '#0- +':
            j += 1
        if j < n and s[j] == '*':
            j += 1
        else:
            while j < n and '0' <= s[j] <= '9':
                j += 1
        if j < n and s[j] == '.':
            j += 1
            if j < n and s[j] == '*':
                j += 1
            else:
                while j < n and '0' <= s[j] <= '9':
                    j += 1
        if j < n and s[j] in 'hlL':
            j += 1
        if j >= n:
            return True
        if s[j] == '%' and j != i + 1:
            return False
        i = j + 1
    return True


SAMPLE = {'int': [7, -(1 << 31) + 1], 'float': [2.5, -1e300], 'chr': ['c', 1114111], 'str': ['text', ''], 'object': [None, (1, 2)],
          '*w': [3, -4], '*p': [3, 0]}
DOCUMENTED = {'ArgumentIndexingMixture', 'ArgumentTypeMismatch', 'WidthRangeError', 'PrecisionRangeError'}


def oracle(s):
    """the property, on the implementation and the live interpreter only.  None or (kind, description)"""
    r = impl(s)
    if r.startswith('crash'):
        return ('crash', 'python.FormatString raised a foreign exception: ' + r)
    if heavy(s) or not in_domain(s):
        return None
    formattable, malformed = live_survey(s)
    if r.startswith('ok'):
        if malformed:
            return ('accepts-malformed', 'accepted, but CPython rejects the string as malformed whatever the arguments')
        m = re.fullmatch(r'ok S:(.*) M:(.*) W:(.*)', r)
        seq = [t for t in m.group(1).split(',') if t]
        mp = [kv for kv in m.group(2).split(';') if kv]
        for variant in (0, 1):
            if mp:
                args = {}
                for kv in mp:
                    k, ts = kv.rsplit('=', 1)
                    args[common.dec_str(k)] = SAMPLE[ts.split('+')[0]][variant]
            else:
                args = tuple(SAMPLE[t][variant] for t in seq)
            c, msg = live_class(s, args)
            if c != 'Success':
                return ('accepted-not-formattable', 'accepted with signature %s, but %r %% %r raises %s %s' % (r[3:], s, args, c, msg))
        return None
    cls = r.split()[1]
    if cls in DOCUMENTED:
        return None
    if formattable:
        return ('undocumented-rejection', 'rejected with %s, but CPython formats the string' % cls)
    return None


# ---------------------------------------------------------------- spec vs live
def tok(v):
    if isinstance(v, bool):
        raise ValueError
    if isinstance(v, int):
        return 'i%d' % v
    if isinstance(v, float):
        return 'f'
    if v is None:
        return 'n'
    if isinstance(v, str):
        return enc_str(v)
    if isinstance(v, tuple):
        return ' '.join(['T', str(len(v))] + [tok(x) for x in v])
    if isinstance(v, dict):
        out = ['D', str(len(v))]
        for k, x in v.items():
            out += [enc_str(k), tok(x)]
        return ' '.join(out)
    raise ValueError(v)


FIXED = [(), (65,), (65, 65), (65, 65, 65), 5, 'x', None, 2.5, ('x',), (None, 2.5), ('xy', 65), (1114112,), (-1,), (2.5, 'x', 65),
         (1 << 63, 1), (1, 1 << 31, 1), (1, -(1 << 31) - 1, 1)]


def battery(s, events, rng, nmax):
    keys = [common.dec_str(e[2:]) for e in events if e.startswith('LK')]
    keys = list(dict.fromkeys(keys + ['a', '']))
    ncons = sum(1 for e in events if e in ('SW', 'SP') or e[0] in 'CU')
    vals = [65, 2.5, 'x', 'xy', None, -1, 1114112, (1,), 0]
    out = [tuple([65] * ncons), tuple([65] * (ncons + 1)), {k: 65 for k in keys}, {k: 'x' for k in keys}, {},
           tuple(rng.choice(vals) for _ in range(ncons)), tuple(rng.choice(vals) for _ in range(ncons)),
           {k: rng.choice(vals) for k in keys}, {k: rng.choice(vals) for k in keys[:1]}]
    if ncons:
        out.append(tuple([65] * (ncons - 1)))
    pool = [v for v in FIXED if v not in out]
    rng.shuffle(pool)
    out += pool
    seen = []
    for v in out:
        if v not in seen:
            seen.append(v)
    return seen[:nmax]


def live_payload(p):
    s, v = p
    if heavy(s) and not isinstance(v, str):
        # only attempt when parsing itself must stop (>= 2^63 or the precision of a string conversion)
        pass
    return live_class(s, v)[0]


# ---------------------------------------------------------------- generators
CONVS = 'diouxXeEfFgGcrsa%'


def rand_directive(rng):
    out = '%'
    if rng.random() < 0.3:
        out += '(' + rng.choice(['a', 'b', '', 'a b', 'k(x)', '((', ')', 'a(b)c', '٣', '%', 'a)(']) + ')'
    out += ''.join(rng.choice('#0- +') for _ in range(rng.choice([0, 0, 0, 1, 1, 2, 3])))
    r = rng.random()
    if r < 0.15:
        out += '*'
    elif r < 0.4:
        out += rng.choice(['1', '5', '10', '007', '٣', '²', '12'])
    if rng.random() < 0.3:
        out += '.' + rng.choice(['', '*', '0', '3', '12', '٣'])
    if rng.random() < 0.15:
        out += rng.choice('hlLq')
    out += rng.choice(CONVS) if rng.random() < 0.9 else rng.choice(['y', 'D', '', '!', 'é', '\n', 'Z', '('])
    return out


def cases(ctx):
    rng = ctx.rng
    out = []
    k = 4 if ctx.quick() else 5
    for n in range(k + 1):
        for t in itertools.product(ALPHA, repeat=n):
            out.append(''.join(t))
    nrand = 20000 if ctx.quick() else 400000
    for _ in range(nrand):
        parts = []
        for _ in range(rng.randrange(1, 5)):
            parts.append(rand_directive(rng) if rng.random() < 0.75 else rng.choice(['', 'text ', '%%', ' ', '100%', '(', ')', 'é']))
        s = ''.join(parts)
        r = rng.random()
        if r < 0.15 and s:
            i = rng.randrange(len(s))
            s = s[:i] + s[i + 1:]
        elif r < 0.25:
            s = s[:rng.randrange(len(s) + 1)]
        elif r < 0.3 and s:
            i = rng.randrange(len(s))
            s = s[:i] + rng.choice(ALPHA + ['٣', '0', '-']) + s[i:]
        out.append(s)
    # boundary values of SSIZE_MAX (parser), INT_MAX and PY_SSIZE_T_MAX (CPython)
    for n in (2147483646, 2147483647, 2147483648, 4294967296, 9223372036854775807, 9223372036854775808, 10 ** 30):
        out += ['%%%ds' % n, '%%.%ds' % n, '%%.%dd' % n, '%%0%dd' % n, '%%(k)%ds' % n, '%%%d' % n, '%%.%d' % n, '%%%d.%d%%' % (n, n)]
    out += ['%' + '(' * n + 'a' + ')' * n + 's' for n in (1, 2, 5, 50)] + ['%' + '(' * 5 + ')' * 4 + 's', '%()s', '%(%)s', '%(a)%', '%5%', '%*%', '%.*%', '%l%', '%#%',
                                                                          '%s%(a)s', '%(a)s%s', '%(a)s%(a)d', '%(a)s %(b)s', '%(a)*d', '%(a).*d', '%c%c', '%%%', '%', '']
    return list(dict.fromkeys(out))


def check(ctx):
    build = common.coq_build()
    aud = common.audit(ctx.id, coqchk=not ctx.quick())
    cs = cases(ctx)
    # 1. model vs implementation
    res = common.compare_parallel('harness.c12', 'impl', [('fmtpy ' + enc_str(s), s) for s in cs], per_case_timeout=20)
    ctx.evaluations += len(res)
    for (line, s, m, r) in res:
        ctx.count('impl:' + ' '.join(r.split(' ')[:2]) if not r.startswith('ok') else 'impl:ok')
        if r.startswith('ok') and r != 'ok S: M: W:':
            ctx.nontriv(('fmtpy', s))
        if m != r:
            ctx.disagree('fmtpy', {'s': s[:200]}, m[:300], r[:300])
    # 2. the property on the implementation, judged by the live interpreter
    verdicts = common.pmap('harness.c12', 'oracle', cs, per_case_timeout=30)
    ctx.evaluations += len(verdicts)
    for s, v in zip(cs, verdicts):
        if v is not None:
            ctx.fail(v[0], {'s': s[:200]}, v[1])
    # 3. spec vs the live interpreter
    syn = common.run_driver(['cpysyn ' + enc_str(s) for s in cs])
    surveys = common.pmap('harness.c12', 'live_survey_safe', cs, per_case_timeout=30)
    reqs = []
    nb = 10 if ctx.quick() else 6
    for s, y, sv in zip(cs, syn, surveys):
        parts = y.split(' ')
        if not parts[0].startswith('syn='):
            ctx.disagree('cpysyn', {'s': s[:200]}, y[:200], '<driver error>')
            continue
        is_syn = parts[0] == 'syn=1'
        ctx.count('spec:syntax-error' if is_syn else 'spec:well-formed')
        if sv is not None:
            formattable, malformed = sv
            if is_syn and formattable:
                ctx.disagree('cpy_syntax_error', {'s': s[:200]}, 'syntax error', 'the live interpreter formats it')
            if malformed and not is_syn:
                ctx.disagree('cpy_syntax_error', {'s': s[:200]}, 'well formed', 'the live interpreter reports a parse error for every shape')
        if heavy(s):
            continue
        for v in battery(s, [e for e in parts[2:] if e], ctx.rng, nb):
            reqs.append(('cpyfmt %s %s' % (enc_str(s), tok(v)), (s, v)))
    res = common.compare_parallel('harness.c12', 'live_payload', reqs, per_case_timeout=30)
    ctx.evaluations += len(res)
    for (line, (s, v), m, r) in res:
        ctx.count('live:' + str(r))
        if m != r:
            ctx.disagree('cpy_format', {'s': s[:200], 'value': repr(v)[:200]}, m, str(r))
    ctx.samples = [{'s': s} for s in cs[::max(1, len(cs) // 10)]][:10]
    return common.finish(
        ctx, 'proof', build, aud, TRUSTED, ASSUME,
        checker_cmd='tools/build.sh (coq_makefile + make: coqc on Props/C12.v) then coqc Audit_C12.v (Print Assumptions)',
        rule='all strings of length <= %d over %r, random concatenations of generated conversion specifications (nested-parenthesis keys, flags, '
             '*, non-ASCII digits, truncations, deletions, insertions), boundary widths/precisions (2^31-1, 2^31, 2^63-1, 2^63). On each: '
             '(1) extracted model vs python.FormatString (class of error, error argument, seq/map arguments with types, warnings); '
             '(2) property oracle on FormatString with the live interpreter (accepted => s %% args_from(signature) succeeds for two value choices; '
             'CPython parse error for every argument shape => rejected; rejected with the generic Error => no shape formats it); '
             '(3) extracted CPython spec vs live: cpy_syntax_error against the survey of shapes, and the exception class of s %% v for up to %d values v per string. '
             'non-trivial = distinct accepted string with at least one argument or warning'
             % (4 if ctx.quick() else 5, ALPHA, nb))


def live_survey_safe(s):
    if heavy(s):
        return None
    return live_survey(s)

"""C14: translations are flagged iff their format arguments disagree with the source."""
import re
import types

import common
from common import enc_str

TRUSTED = [
    'Coq 8.16.1 kernel (coqc, vm_compute); coqchk in thorough tier',
    'axioms: none (Print Assumptions must report "Closed under the global context" for every theorem of Props/C14.v)',
    'hand-written Gallina model Model/MsgFormat.v of lib/check/msgformat/{__init__,c,python,pybrace,perlbrace}.py: check_message pairing and the four check_args, over signatures',
    'source translator tools/gen/gen_msgformat_src.py (python ast of the four check_args and of the tail of check_message -> Generated/MsgFormatSrc.v, fail-closed subset) with the Gallina meaning of that subset in Model/MsgFormatPy.v; the C14_source_tie_* theorems prove its output equal to the model',
    'the signatures themselves come from the real format-string parsers (subject of C11-C13)',
    'extraction (ExtrOcamlBasic only) + ocaml/driver.ml',
]
ASSUME = ['argument maps are passed sorted by key with distinct keys (the harness builds them from dict keys with the code\'s own sort key)',
          'the preimage is the one on the window [0,200) computed by check_plurals (C07)']

KINDS = ['c', 'python', 'python-brace', 'perl-brace']


def backend(kind):
    from lib.strformat import c, python, pybrace, perlbrace
    return {'c': c, 'python': python, 'python-brace': pybrace, 'perl-brace': perlbrace}[kind]


def sort_key(item):
    return (isinstance(item, str), item)


def enc_key(k):
    return ('i%d' % k) if isinstance(k, int) else enc_str(k)


def signature_line(kind, src_fmt, dst_fmt, omit):
    om = '1' if omit else '0'
    if kind == 'c':
        st = [a[0].type for a in src_fmt.arguments]
        dt = [a[0].type for a in dst_fmt.arguments]
        bits = 'x' + ''.join('1' if src_fmt.get_last_integer_conversion(n=n) else '0' for n in range(1, len(st) + 1))
        return ' '.join(['cargs', om, str(len(st))] + [enc_str(t) for t in st] + [str(len(dt))] + [enc_str(t) for t in dt] + [bits])
    if kind == 'python':
        def amap(f):
            out = [str(len(f.map_arguments))]
            for k in sorted(f.map_arguments):
                args = f.map_arguments[k]
                out += [enc_key(k), '1', enc_str(args[0].type), '1' if all(a.type == 'int' for a in args) else '0']
            return out
        ss = [a.type for a in src_fmt.seq_arguments]
        ds = [a.type for a in dst_fmt.seq_arguments]
        return ' '.join(['pyargs', om, str(len(ss))] + [enc_str(t) for t in ss] + [str(len(ds))] + [enc_str(t) for t in ds] + amap(src_fmt) + amap(dst_fmt))
    if kind == 'python-brace':
        def amap(f):
            out = [str(len(f.argument_map))]
            for k in sorted(f.argument_map, key=sort_key):
                args = f.argument_map[k]
                ts = sorted(args[0].types)
                out += [enc_key(k), str(len(ts))] + [enc_str(t) for t in ts] + ['1' if all('int' in a.types for a in args) else '0']
            return out
        return ' '.join(['braceargs', om] + amap(src_fmt) + amap(dst_fmt))
    s = sorted(src_fmt.arguments, key=sort_key)
    d = sorted(dst_fmt.arguments, key=sort_key)
    return ' '.join(['perlargs', om, str(len(s))] + [enc_key(k) for k in s] + [str(len(d))] + [enc_key(k) for k in d])


def canon_arg_tags(recorded):
    out = []
    for name, extra in recorded:
        if name.endswith('-excess-arguments'):
            out.append('excess %d %d' % (extra[1], extra[4]))
        elif name.endswith('-missing-arguments'):
            out.append('missing-n %d %d' % (extra[1], extra[4]))
        elif name.endswith('-argument-number-mismatch'):
            out.append('number %d %d' % (extra[1], extra[4]))
        elif name.endswith('-argument-type-mismatch'):
            dt = str(extra[1]).split(', ')
            st = str(extra[4]).split(', ')
            out.append('type %s != %s' % (','.join(enc_str(t) for t in dt), ','.join(enc_str(t) for t in st)))
        elif name.endswith('-unknown-argument'):
            out.append('unknown ' + enc_key(extra[1]))
        elif name.endswith('-missing-argument'):
            out.append('missing ' + enc_key(extra[1]))
    return ' | '.join(out) if out else 'none'


def _checker():
    from harness import impl_checker as IC
    cls = IC.get_checker_class()
    return cls('/nonexistent/x.po', options=IC.make_options())


def parse_or_none(kind, s):
    b = backend(kind)
    try:
        return b.FormatString(s)
    except b.Error:
        return None


def impl_args(payload):
    kind, src, dst, omit = payload
    import polib
    chk = _checker()
    kc = chk._message_format_checkers[kind]
    sf = parse_or_none(kind, src)
    df = parse_or_none(kind, dst)
    if sf is None or df is None:
        return 'skip'
    try:
        kc.check_args(polib.POEntry(msgid=src, msgstr=dst), 'msgid', sf, 'msgstr', df, omitted_int_conv_ok=omit)
    except Exception as e:  # noqa
        return 'crash ' + type(e).__name__
    return canon_arg_tags(chk.recorded)


def model_args_line(payload):
    kind, src, dst, omit = payload
    sf = parse_or_none(kind, src)
    df = parse_or_none(kind, dst)
    if sf is None or df is None:
        return None
    return signature_line(kind, sf, df, omit)


# ---------------------------------------------------------------- check_message plan
def make_message(shape):
    import polib
    kw = dict(msgid=shape['msgid'])
    if shape.get('msgid_plural') is not None:
        kw['msgid_plural'] = shape['msgid_plural']
        kw['msgstr_plural'] = dict(shape.get('msgstr_plural', {}))
    else:
        kw['msgstr'] = shape.get('msgstr', '')
    return polib.POEntry(**kw)


def impl_plan(shape):
    kind = shape['kind']
    chk = _checker()
    kc = chk._message_format_checkers[kind]
    calls = []

    def rec(message, src_loc, src_fmt, dst_loc, dst_fmt, *, omitted_int_conv_ok=False):
        calls.append('%s -> %s %s' % (src_loc, dst_loc, 'omit-ok' if omitted_int_conv_ok else 'strict'))
    kc.check_args = rec
    ctx = types.SimpleNamespace(is_template=shape['template'], encoding=('UTF-8' if shape['encoding'] else None),
                                plural_preimage=shape['preimage'])
    flags = types.SimpleNamespace(fuzzy=shape['fuzzy'], range_min=shape['rmin'], range_max=shape['rmax'])
    try:
        kc.check_message(ctx, make_message(shape), flags)
    except Exception as e:  # noqa
        return 'crash ' + type(e).__name__
    return ' | '.join(calls) if calls else 'none'


def plan_line(shape):
    kind = shape['kind']
    f0 = parse_or_none(kind, shape['msgid'])
    has_plural = shape.get('msgid_plural') is not None
    f1 = parse_or_none(kind, shape['msgid_plural']) if has_plural else None
    lens_equal = (f0 is not None and f1 is not None and len(f0) == len(f1))
    b = lambda x: '1' if x else '0'
    parts = ['plan', b(shape['template']), b(shape['fuzzy']), b(shape['encoding']), b(f0 is not None), b(has_plural), b(f1 is not None), b(lens_equal)]
    if has_plural:
        parts.append('0')
        items = sorted(shape.get('msgstr_plural', {}).items())
    else:
        ms = shape.get('msgstr', '')
        parts.append('0' if not ms else ('2' if parse_or_none(kind, ms) is not None else '1'))
        items = []
    parts.append(str(len(items)))
    for i, s in items:
        parts += [str(i), b(parse_or_none(kind, s) is not None)]
    parts.append(b(any(s for _, s in items)))
    pre = shape['preimage']
    if pre is None:
        parts.append('-1')
    else:
        parts.append(str(len(pre)))
        for k in sorted(pre):
            parts += [str(k), str(len(pre[k]))] + [str(v) for v in pre[k]]
    parts += [str(shape['rmin']), str(shape['rmax'])]
    return ' '.join(parts)


# ---------------------------------------------------------------- the property's own oracle (non-plural, non-fuzzy messages)
def ref_signature(kind, f):
    if kind == 'c':
        return ('seq', tuple(a[0].type for a in f.arguments))
    if kind == 'python':
        return ('py', tuple(a.type for a in f.seq_arguments), tuple(sorted((k, v[0].type) for k, v in f.map_arguments.items())))
    if kind == 'python-brace':
        # the type set of an argument is the intersection of the constraints of ALL its occurrences
        def common(v):
            t = set(v[0].types)
            for a in v[1:]:
                t &= set(a.types)
            return tuple(sorted(t))
        return ('map', tuple(sorted(((isinstance(k, str), k), common(v)) for k, v in f.argument_map.items())))
    return ('set', tuple(sorted(f.arguments)))


def oracle_plain(payload):
    """full check_message on a non-fuzzy, non-plural message with valid strings: mismatch tags iff signatures differ"""
    kind, src, dst = payload
    sf = parse_or_none(kind, src)
    df = parse_or_none(kind, dst)
    if sf is None or df is None or not dst:
        return None
    import polib
    chk = _checker()
    kc = chk._message_format_checkers[kind]
    ctx = types.SimpleNamespace(is_template=False, encoding='UTF-8', plural_preimage=None)
    flags = types.SimpleNamespace(fuzzy=False, range_min=0, range_max=1e999)
    try:
        kc.check_message(ctx, polib.POEntry(msgid=src, msgstr=dst), flags)
    except Exception as e:  # noqa
        return 'check_message raised ' + type(e).__name__
    got = canon_arg_tags(chk.recorded)
    ss, ds = ref_signature(kind, sf), ref_signature(kind, df)
    # "reported iff the two signatures differ in the corresponding way": one verdict per class of difference
    exp = set()
    if kind == 'c':
        s_t, d_t = ss[1], ds[1]
        if len(d_t) > len(s_t):
            exp.add('excess')
        if len(d_t) < len(s_t):
            exp.add('missing-n')
        if any(a != b for a, b in zip(s_t, d_t)):
            exp.add('type')
    elif kind == 'python':
        if len(ss[1]) != len(ds[1]):
            exp.add('number')
        sm, dm = dict(ss[2]), dict(ds[2])
        if any(a != b for a, b in zip(ss[1], ds[1])) or any(sm[k] != dm[k] for k in sm if k in dm):
            exp.add('type')
        if set(dm) - set(sm):
            exp.add('unknown')
        if set(sm) - set(dm):
            exp.add('missing')
    elif kind == 'python-brace':
        # types are sets; a mismatch is an empty intersection, per key
        sm = {k: set(t) for k, t in ss[1]}
        dm = {k: set(t) for k, t in ds[1]}
        if any(not (sm[k] & dm[k]) for k in sm if k in dm):
            exp.add('type')
        if set(dm) - set(sm):
            exp.add('unknown')
        if set(sm) - set(dm):
            exp.add('missing')
    else:
        if set(ds[1]) - set(ss[1]):
            exp.add('unknown')
        if set(ss[1]) - set(ds[1]):
            exp.add('missing')
    rep = set() if got == 'none' else {t.split(' ')[0] for t in got.split(' | ')}
    if exp - rep:
        return 'signatures %r vs %r differ in %s but only %s is reported' % (ss, ds, sorted(exp - rep), got)
    if rep - exp:
        return 'signatures %r vs %r do not differ in %s but reported: %s' % (ss, ds, sorted(rep - exp), got)
    return None


def oracle_plan(shape):
    """the tolerated-omission rule of the property, checked on the invocations the real check_message makes"""
    r = impl_plan_wrap(shape)
    if r.startswith('crash'):
        return None
    pre = shape['preimage'] or {}
    kind = shape['kind']
    if (shape.get('msgid_plural') is not None and not shape['fuzzy'] and shape['encoding'] and not shape['template']
            and parse_or_none(kind, shape['msgid']) is not None and parse_or_none(kind, shape['msgid_plural']) is not None
            and pre and any(shape.get('msgstr_plural', {}).values())):
        # "the same holds between each msgstr[i] and msgid_plural": every form that is a valid format string and that the plural
        # expression can select is compared with its source, whatever the other forms look like
        expected = sorted(i for i, s in shape['msgstr_plural'].items() if parse_or_none(kind, s) is not None and i in pre)
        got = sorted(int(x) for x in re.findall(r'-> msgstr\[(\d+)\]', r))
        if expected != got:
            return 'forms compared with their source: %r, forms that are valid format strings and selectable: %r' % (got, expected)
    for call in r.split(' | '):
        m = re.fullmatch(r'(\S+) -> msgstr\[(\d+)\] (omit-ok|strict)', call)
        if not m:
            continue
        i = int(m.group(2))
        sel = [x for x in pre.get(i, []) if shape['rmin'] <= x <= shape['rmax']]
        single = len(sel) <= 1 or (len(sel) == 2 and sel[0] == 0)
        if m.group(3) == 'omit-ok' and not single:
            return 'omission tolerated for msgstr[%d] although the form is selected for n in %r' % (i, sel[:6])
        if m.group(3) == 'strict' and single and sel != [1]:
            return 'omission NOT tolerated for msgstr[%d] although the form is selected only for n in %r' % (i, sel[:6])
        if m.group(1) == 'msgid' and sel != [1]:
            return 'msgstr[%d] compared against msgid although it is selected for n in %r' % (i, sel[:6])
        if m.group(1) not in ('msgid', 'msgid_plural'):
            return 'unexpected source ' + call
    return None


def oracle_omit(payload):
    """check_args with the omission flag on (the form serves a single n): a missing named argument is forgiven only if it is
    the ONLY missing one and an integer everywhere in the source; everything else is reported as without the flag"""
    kind, src, dst = payload
    if kind not in ('python', 'python-brace'):
        return None
    sf = parse_or_none(kind, src)
    df = parse_or_none(kind, dst)
    if sf is None or df is None:
        return None
    import polib
    chk = _checker()
    kc = chk._message_format_checkers[kind]
    try:
        kc.check_args(polib.POEntry(msgid=src, msgstr=dst), 'msgid', sf, 'msgstr', df, omitted_int_conv_ok=True)
    except Exception as e:  # noqa
        return 'check_args raised ' + type(e).__name__
    got = canon_arg_tags(chk.recorded)
    rep = [] if got == 'none' else [t.split(' ', 1) for t in got.split(' | ')]
    reported_missing = sorted(t[1] for t in rep if t[0] == 'missing')
    if kind == 'python':
        sm, dm = sf.map_arguments, df.map_arguments
        is_int = lambda k: all(a.type == 'int' for a in sm[k])          # noqa: E731
    else:
        sm, dm = sf.argument_map, df.argument_map
        is_int = lambda k: all('int' in a.types for a in sm[k])        # noqa: E731
    missing = [k for k in sm if k not in dm]
    if len(missing) == 1 and is_int(missing[0]):
        missing = []
    want = sorted(enc_key(k) for k in missing)
    if want != reported_missing:
        return 'missing arguments reported %r, expected %r (one dropped integer argument is tolerated, nothing more)' % (reported_missing, want)
    return None


# ---------------------------------------------------------------- generators
# occurrences of one argument with different constraints (their intersection is the argument's type set)
REPEATED = {'python-brace': ['{0} {0:d}', '{0:d} {0}', '{a} {a:f}', '{a:s} {a}', '{0} {0:n} {0:d}', '{1:f} {1}'],
            'python': ['%(a)s %(a)s', '%(a)d %(a)i'], 'c': ['%1$d %1$i'], 'perl-brace': ['{a} {a}']}

POOL = {
    'c': (['%d', '%s', '%ld', '%c', '%f', '%u', '%x', '%5d', '%-3s', '%lu', '%lld', '%hd', '%g', '%p', '%%', ' x ', '%i', '%zu'],
          ['%1$s', '%2$d', '%3$ld', '%1$d', '%2$s', '%3$c', '%4$f', '%2$u', '%*d', '%.*f', '%1$*2$d', '%%', ' y ']),
    'python': (['%s', '%d', '%r', '%f', '%c', '%5d', '%x', '%%', ' x ', '%i', '%*d', '%.*f'],
               ['%(a)s', '%(a)d', '%(b)s', '%(b)d', '%(c)f', '%(a)r', '%(name)s', '%(b)x', '%%', ' y ', '%(é)s']),
    'python-brace': (['{0}', '{1}', '{2}', '{0:d}', '{1:s}', '{0:n}', '{0:f}', '{1!r}', '{}', '{{', ' x ', '{0:>5}', '{2:x}', '{0:s}'],
                     ['{a}', '{b}', '{a:d}', '{b:s}', '{a!s}', '{c:f}', '{name}', '{a:n}', '{0}', '{1:d}', '}}', ' y ', '{a:s}', '{b:g}']),
    'perl-brace': (['{a}', '{b}', '{c}', '{foo}', '{foo_1}', ' x ', '{é}'], ['{a}', '{b}', '{name}', ' y ']),
}


def gen_pairs(rng, kind, n):
    unn, num = POOL[kind]
    out = []
    for _ in range(n):
        pool = unn if rng.random() < 0.5 else num
        k = rng.randrange(0, 5)
        src = [rng.choice(pool) for _ in range(k)]
        if rng.random() < 0.15:
            src.append(rng.choice(REPEATED[kind]))
        r = rng.random()
        dst = list(src)
        if r < 0.25:
            rng.shuffle(dst)
        elif r < 0.45 and dst:
            del dst[rng.randrange(len(dst))]
        elif r < 0.65:
            dst.insert(rng.randrange(len(dst) + 1), rng.choice(pool))
        elif r < 0.85 and dst:
            dst[rng.randrange(len(dst))] = rng.choice(pool)
        elif r < 0.9:
            dst = [rng.choice(unn + num) for _ in range(rng.randrange(0, 4))]
        elif r < 0.97:
            dst.insert(rng.randrange(len(dst) + 1), rng.choice(REPEATED[kind]))
        sep = rng.choice(['', ' ', ' and '])
        out.append((kind, sep.join(src), sep.join(dst)))
    return out


PREIMAGES = [None, {}, {0: [1], 1: [0] + list(range(2, 200))}, {0: list(range(200))},
             {0: [1, 21, 31], 1: [2, 3, 4, 22], 2: [0, 5, 6, 7]}, {0: [0, 1], 1: list(range(2, 200))}, {0: [0], 1: [1], 2: [2], 3: list(range(3, 200))},
             {0: [1], 1: [2], 2: [0, 3, 4]}, {1: [1]}, {0: [0, 5]}]
RANGES = [(0, 1e999), (0, 1), (0, 2), (1, 1), (2, 5), (0, 1000), (1, 2)]


def gen_shapes(rng, n):
    out = []
    for _ in range(n):
        kind = rng.choice(KINDS)
        unn, num = POOL[kind]
        pool = rng.choice([unn, num])
        mk = lambda: rng.choice(['', ' ']).join(rng.choice(pool) for _ in range(rng.randrange(0, 4)))
        bad = {'c': '%', 'python': '%(', 'python-brace': '{', 'perl-brace': '{'}[kind]
        maybe_bad = lambda s: (s + bad) if rng.random() < 0.12 else s
        sh = {'kind': kind, 'template': rng.random() < 0.25, 'fuzzy': rng.random() < 0.15, 'encoding': rng.random() < 0.9,
              'msgid': maybe_bad(mk())}
        rmin, rmax = rng.choice(RANGES)
        sh['rmin'], sh['rmax'] = rmin, rmax
        sh['preimage'] = rng.choice(PREIMAGES)
        if rng.random() < 0.6:
            sh['msgid_plural'] = maybe_bad(mk())
            nf = rng.randrange(0, 5)
            sh['msgstr_plural'] = {i: (maybe_bad(mk()) if rng.random() < 0.85 else '') for i in range(nf)}
        else:
            sh['msgstr'] = maybe_bad(mk()) if rng.random() < 0.85 else ''
        if sh['rmax'] == 1e999:
            sh['rmax'] = 10 ** 9   # flags.range_max is +inf in the code; any bound above the window is equivalent
        out.append(sh)
    return out


def impl_plan_seq(shapes):
    """several messages of ONE catalog through ONE checker object, in order (as check_messages does): the recorded check_args
    invocations per message, or 'crash ...'"""
    kind = shapes[0]['kind']
    chk = _checker()
    kc = chk._message_format_checkers[kind]
    calls = []

    def rec(message, src_loc, src_fmt, dst_loc, dst_fmt, *, omitted_int_conv_ok=False):
        calls.append('%s -> %s %s' % (src_loc, dst_loc, 'omit-ok' if omitted_int_conv_ok else 'strict'))
    kc.check_args = rec
    sh0 = shapes[0]
    ctx = types.SimpleNamespace(is_template=sh0['template'], encoding=('UTF-8' if sh0['encoding'] else None), plural_preimage=sh0['preimage'])
    out = []
    for sh in shapes:
        del calls[:]
        flags = types.SimpleNamespace(fuzzy=sh['fuzzy'], range_min=sh['rmin'], range_max=(1e999 if sh['rmax'] == 10 ** 9 else sh['rmax']))
        try:
            kc.check_message(ctx, make_message(sh), flags)
        except Exception as e:  # noqa
            out.append('crash ' + type(e).__name__)
            continue
        out.append(' | '.join(calls) if calls else 'none')
    return out


def gen_sequences(rng, n):
    """messages of one catalog (one kind, one preimage table, one template/encoding context) whose range flags share one bound and
    differ in the other, or coincide, or are absent; the verdict on a message must not depend on the messages checked before it"""
    out = []
    for _ in range(n):
        base = gen_shapes(rng, 1)[0]
        while base.get('msgid_plural') is None or not base['preimage']:
            base = gen_shapes(rng, 1)[0]
        lo = rng.choice([0, 1, 2, 5, 21, 100])
        hi = rng.choice([1, 2, 4, 22, 30, 199, 10 ** 9])
        bounds = [(0, 10 ** 9), (lo, hi), (rng.choice([0, 1, 2, 5, 21, 100]), hi), (lo, rng.choice([1, 2, 4, 22, 30, 199, 10 ** 9])), (lo, hi)]
        rng.shuffle(bounds)
        seq = []
        for (a, b) in bounds[:rng.randrange(2, 6)]:
            sh = gen_shapes(rng, 1)[0]
            while sh.get('msgid_plural') is None or sh['kind'] != base['kind']:
                sh = gen_shapes(rng, 1)[0]
            sh.update(kind=base['kind'], template=base['template'], encoding=base['encoding'], preimage=base['preimage'], rmin=a, rmax=b)
            if rng.random() < 0.5:
                sh.update(msgid=base['msgid'], msgid_plural=base['msgid_plural'], msgstr_plural=dict(base['msgstr_plural']), fuzzy=base['fuzzy'])
            seq.append(sh)
        out.append(seq)
    return out


def seq_verdict(seq):
    alone = [impl_plan_wrap(sh) for sh in seq]
    together = impl_plan_seq(seq)
    for i, (a, t) in enumerate(zip(alone, together)):
        if a != t:
            return 'message %d of the sequence: check_args invocations %r when it is checked after the others, %r when it is checked alone' % (i, t, a)
    return None


def impl_plan_wrap(shape):
    sh = dict(shape)
    if sh['rmax'] == 10 ** 9:
        sh['rmax'] = 1e999
    return impl_plan(sh)


def check(ctx):
    build = common.coq_build()
    aud = common.audit(ctx.id, coqchk=not ctx.quick())
    rng = ctx.rng
    import sys
    sys.path.insert(0, common.REPO)
    # ---- check_args per kind
    n = 2500 if ctx.quick() else 60000
    pairs = []
    for kind in KINDS:
        pairs += gen_pairs(rng, kind, n)
    # one argument used once in the source and twice (with different constraints) in the translation, and vice versa: exhaustive over the specs
    import itertools
    specs = ['', ':s', ':d', ':f', ':n', ':>5', ':.2']
    for k in ('0', 'a'):
        for s1, s2, s3 in itertools.product(specs, repeat=3):
            one = '{%s%s}' % (k, s1)
            two = '{%s%s} and {%s%s}' % (k, s2, k, s3)
            pairs.append(('python-brace', one, two))
            pairs.append(('python-brace', two, one))
    # several integers dropped at once, next to a kept argument
    pairs += [('python', '%(a)d %(b)d %(c)s', '%(c)s'), ('python', '%(a)d %(b)d', 'x'), ('python', '%(a)d %(b)s %(c)d', '%(b)s'), ('python', '%(a)d %(a)s', 'x'),
              ('python-brace', '{a:d} {b:d} {c}', '{c}'), ('python-brace', '{a:d} {b:d}', 'x'), ('python-brace', '{0:d} {1:d} {2}', '{2}'), ('python-brace', '{a:d} {a:s}', 'x'),
              ('python', '%(a)d %(c)s', '%(c)s'), ('python-brace', '{a:d} {c}', '{c}')]
    payloads = []
    for (kind, src, dst) in pairs:
        for omit in (False, True):
            payloads.append((kind, src, dst, omit))
    lines = common.pmap('harness.c14', 'model_args_line', payloads)
    req = [(l, p) for l, p in zip(lines, payloads) if isinstance(l, str)]
    res = common.compare_parallel('harness.c14', 'impl_args', req)
    ctx.evaluations += len(res)
    for (line, payload, m, r) in res:
        ctx.count('args:%s:%s' % (payload[0], 'none' if r == 'none' else 'diag'))
        if r != 'none':
            ctx.nontriv(payload)
        if r.startswith('crash'):
            ctx.fail('check-args-crash', {'kind': payload[0], 'src': payload[1], 'dst': payload[2], 'omit_ok': payload[3]}, r)
        elif m != r:
            ctx.disagree('check_args', {'kind': payload[0], 'src': payload[1], 'dst': payload[2], 'omit_ok': payload[3]}, m, r)
    # ---- check_message plan
    shapes = gen_shapes(rng, 4000 if ctx.quick() else 100000)
    plines = common.pmap('harness.c14', 'plan_line', shapes)
    res = common.compare_parallel('harness.c14', 'impl_plan_wrap', list(zip(plines, shapes)))
    ctx.evaluations += len(res)
    for (line, sh, m, r) in res:
        ctx.count('plan:' + ('none' if r == 'none' else 'calls'))
        if r != 'none':
            ctx.nontriv(line)
        if r.startswith('crash'):
            ctx.fail('check-message-crash', {'shape': {k: (v if k != 'preimage' else str(v)[:80]) for k, v in sh.items()}}, r)
        elif m != r:
            ctx.disagree('plan_message', {'shape': {k: (v if k != 'preimage' else str(v)[:80]) for k, v in sh.items()}}, m, r)
    # ---- several messages through one checker object: the verdict on a message is a function of that message
    seqs = gen_sequences(rng, 1500 if ctx.quick() else 30000)
    sv = common.pmap('harness.c14', 'seq_verdict', seqs)
    ctx.evaluations += len(seqs)
    for seq, v in zip(seqs, sv):
        ctx.count('sequence')
        if isinstance(v, str) and v != 'timeout':
            ctx.fail('message-history-dependence', {'sequence': [{k: (v2 if k != 'preimage' else str(v2)[:120]) for k, v2 in sh.items()} for sh in seq]}, v)
        else:
            ctx.nontriv(('seq', len(seq), seq[0]['kind'], seq[0]['rmin'], seq[0]['rmax']))
    overd = common.pmap('harness.c14', 'oracle_omit', sorted(set(pairs)))
    ctx.evaluations += len(overd)
    for p, v in zip(sorted(set(pairs)), overd):
        if isinstance(v, str) and v != 'timeout':
            ctx.fail('omission-rule', {'kind': p[0], 'msgid': p[1], 'msgstr': p[2], 'omitted_int_conv_ok': True}, v)
    verdicts = common.pmap('harness.c14', 'oracle_plan', shapes)
    for sh, v in zip(shapes, verdicts):
        if v is not None:
            ctx.fail('omission-rule', {'shape': {k: (v2 if k != 'preimage' else str(v2)[:200]) for k, v2 in sh.items()}}, v)
    # ---- oracle: plain messages, flagged iff signatures differ
    verdicts = common.pmap('harness.c14', 'oracle_plain', pairs)
    ctx.evaluations += len(pairs)
    for p, v in zip(pairs, verdicts):
        if v is not None:
            ctx.fail('flagged-iff-differs', {'kind': p[0], 'msgid': p[1], 'msgstr': p[2]}, v, replay=('harness.c14', 'oracle_plain', list(p)))
    ctx.samples = [{'kind': p[0], 'msgid': p[1], 'msgstr': p[2]} for p in pairs[::max(1, len(pairs) // 8)]][:8] + \
                  [{k: (v if k != 'preimage' else str(v)[:60]) for k, v in shapes[0].items()}]
    return common.finish(
        ctx, 'proof', build, aud, TRUSTED, ASSUME,
        checker_cmd='tools/build.sh (coq_makefile + make: coqc on Props/C14.v) then coqc Audit_C14.v (Print Assumptions)',
        rule='per format kind: (msgid, msgstr) pairs built from directive pools (numbered/named and unnumbered), msgstr = msgid permuted / one dropped / one added / one retyped / unrelated; '
             'signatures from the real parsers; model check_args vs the real check_args (both values of omitted_int_conv_ok); message shapes (template, fuzzy, charset, plural forms, '
             'preimages, range flags, invalid strings) model plan_message vs recorded check_args invocations of the real check_message; sequences of 2-5 plural messages of one catalog (range flags sharing one bound and differing in the other) through ONE checker object: the invocations for each message must equal those for the message checked alone; oracle: full check_message on plain messages flags iff '
             'the reference signatures differ. non-trivial = distinct case with at least one diagnostic / invocation')

"""C03: output is a deterministic function of each file, independent of run context."""
import concurrent.futures
import os
import shutil
import subprocess

import common
from harness import pogen

TRUSTED = [
    'Coq 8.16.1 kernel (coqc, vm_compute); coqchk in thorough tier',
    'axioms: none (Print Assumptions must report "Closed under the global context" for every theorem of Props/C03.v)',
    'Model/Cli.v: check_all as flat_map of a per-file function; ProcessPoolExecutor.map modelled as "results keyed by submission index, yielded in '
    'submission order, for every completion order" — the executor itself, process start-up and real scheduling are not modelled',
    'tools/gen/gen_setsites.py: a syntactic (not type-based) detector of order-sensitive consumption of sets over the python ast, with a reviewed list of benign sites',
    'schedule / seed / history exploration through the real CLI in subprocesses',
    'tools/gen/gen_cli_src.py: fail-closed python-ast -> Gallina translator of lib/cli.py (Checker.tag, check_regular_file, copy_options, check_deb, check_file, check_file_s, check_all, parse_jobs, the -j normalisation of main) and its vocabulary Model/CliPy.v (io = lines written + Ret/Raise, posixpath.join, options record); the real checker, subprocesses, TemporaryDirectory, os.walk, islink/isfile, the executor, tags.get_tag and Tag.format are oracle arguments',
]
ASSUME = ['the current date does not cross a tag threshold during the run', 'files are not modified during the run']


def run_cli(args, seed, cwd, extra_env=None):
    env = dict(os.environ)
    env.update({'PYTHONPATH': common.REPO, 'PYTHONHASHSEED': str(seed), 'LC_ALL': 'C.UTF-8'})
    if extra_env:
        env.update(extra_env)
    p = subprocess.run([common.PY, os.path.join(common.REPO, 'i18nspector')] + args, cwd=cwd, env=env,
                       stdout=subprocess.PIPE, stderr=subprocess.PIPE, timeout=600)
    return p.stdout.decode('utf-8', 'replace'), p.stderr.decode('utf-8', 'replace'), p.returncode


def run_pty(args, cwd):
    """stdout of the tool on a pseudo-terminal (TERM=xterm)"""
    import pty
    import select
    env = dict(os.environ)
    env.update({'PYTHONPATH': common.REPO, 'PYTHONHASHSEED': '0', 'LC_ALL': 'C.UTF-8', 'TERM': 'xterm'})
    cmd = [common.PY, os.path.join(common.REPO, 'i18nspector')] + args
    pid, fd = pty.fork()
    if pid == 0:
        os.chdir(cwd)
        os.execve(cmd[0], cmd, env)
    data = b''
    while True:
        try:
            r, _, _ = select.select([fd], [], [], 120)
            if not r:
                break
            chunk = os.read(fd, 65536)
        except OSError:
            break
        if not chunk:
            break
        data += chunk
    os.waitpid(pid, 0)
    os.close(fd)
    return data.decode('utf-8', 'replace').replace('\r\n', '\n')


def build_files(ctx, d):
    """black-box test files of the repository + generated catalogs that exercise set/dict iteration"""
    rng = ctx.rng
    src = os.path.join(common.REPO, 'tests', 'blackbox_tests')
    names = sorted(f for f in os.listdir(src) if f.endswith(('.po', '.pot', '.mo', '.pop')))
    if ctx.quick():
        names = sorted(set(names[::3]) | {n for n in names if n.endswith('.pot')})
    files = []
    for n in names:
        shutil.copy(os.path.join(src, n), os.path.join(d, n))
        files.append(n)
    # python-brace type mismatches with several types, many unknown/missing keys, many unusual characters, many flags
    special = {
        'brace-types.po': {'entries': [
            {'msgid': '{0:n} {1:g} {a:d} {b}', 'msgstr': '{0:s} {1:s} {a:s} {b:d}', 'flags': ['python-brace-format']},
            {'msgid': '{0} {foo} {bar} {2}', 'msgstr': 'x', 'flags': ['python-brace-format']},
            {'msgid': '{a} {b} {c} {d} {e}', 'msgstr': '{v} {w} {x} {y} {z}', 'flags': ['perl-brace-format']},
            {'msgid': '%(a)s %(b)s %(c)s %(d)s', 'msgstr': '%(w)s %(x)s %(y)s %(z)s %(a)d', 'flags': ['python-format']},
            {'msgid': '%d gizmos enhanced', 'msgstr': '%s gizmos enhanced', 'flags': ['c-format', 'python-format']},
            {'msgid': '{0} %d %(a)s {a}', 'msgstr': '{1} %s %(b)s {b}', 'flags': ['python-brace-format', 'perl-brace-format', 'c-format', 'python-format']},
            {'msgid': 'unusual', 'msgstr': '\x01\x02\x03\x7f\x85�﻿ a\xbf'},
            {'msgid': 'flags', 'msgstr': 'f', 'flags': ['c-format', 'no-c-format', 'python-format', 'possible-python-format', 'java-format', 'zzz', 'zzz', 'aaa', 'wrap', 'no-wrap', 'range:1..2', 'range:2..3']},
        ]},
    }
    for name, extra in special.items():
        cat = pogen.base_catalog()
        cat['entries'] += extra['entries']
        with open(os.path.join(d, name), 'w', encoding='utf-8') as f:
            f.write(pogen.render(cat))
        files.append(name)
    # a template as xgettext writes it (untouched boilerplate comments): template-only rules must not depend on earlier files
    pot = {'header_comments': ['SOME DESCRIPTIVE TITLE.', "Copyright (C) YEAR THE PACKAGE'S COPYRIGHT HOLDER", 'This file is distributed under the same license as the PACKAGE package.',
                               'FIRST AUTHOR <EMAIL@ADDRESS>, YEAR.', ''],
           'header_flags': ['fuzzy'],
           'header': [('Project-Id-Version', 'PACKAGE VERSION'), ('Report-Msgid-Bugs-To', ''), ('POT-Creation-Date', '2012-11-01 14:42+0100'),
                      ('PO-Revision-Date', 'YEAR-MO-DA HO:MI+ZONE'), ('Last-Translator', 'FULL NAME <EMAIL@ADDRESS>'), ('Language-Team', 'LANGUAGE <LL@li.org>'),
                      ('Language', ''), ('MIME-Version', '1.0'), ('Content-Type', 'text/plain; charset=CHARSET'), ('Content-Transfer-Encoding', '8bit')],
           'entries': [{'msgid': 'A quick brown fox', 'msgstr': ''}]}
    with open(os.path.join(d, 'xgettext-template.pot'), 'w', encoding='utf-8') as f:
        f.write(pogen.render(pot))
    files.append('xgettext-template.pot')
    # the same escaped bytes under different declared charsets: decoding must not carry state from one file to the next
    for cs in ('ISO-8859-1', 'ISO-8859-2', 'KOI8-R', 'UTF-8'):
        esc = '\\xe6\\xf1' if cs != 'UTF-8' else '\\xc3\\xa6'
        text = ('msgid ""\nmsgstr ""\n"Content-Type: text/plain; charset=%s\\n"\n"Language: pl\\n"\n\n'
                'msgid "%s fox\\n"\nmsgstr "%s lis"\n\nmsgid "%s"\nmsgstr "\\303\\251%s"\n') % (cs, esc, esc, 'caf' + esc, esc)
        name = 'escaped-%s.po' % cs.lower()
        with open(os.path.join(d, name), 'w', encoding='ascii') as f:
            f.write(text)
        files.append(name)
    # one language with and without a modifier (different character lists) under one charset; the same language under different
    # charsets; the same charset under different languages: whatever is remembered about one file must not colour the next
    for lang, cs in (('sr', 'ISO-8859-5'), ('sr@latin', 'ISO-8859-5'), ('sr', 'ISO-8859-2'), ('sr@latin', 'ISO-8859-2'), ('be', 'ISO-8859-5'), ('be@latin', 'ISO-8859-5'),
                     ('pl', 'ISO-8859-1'), ('pl', 'ISO-8859-2'), ('de', 'ISO-8859-1'), ('el', 'ISO-8859-7'), ('el', 'ISO-8859-1'), ('uz', 'ISO-8859-9'), ('uz@cyrillic', 'ISO-8859-9')):
        text = 'msgid ""\nmsgstr ""\n"Content-Type: text/plain; charset=%s\\n"\n"Language: %s\\n"\n\nmsgid "a"\nmsgstr "b"\n' % (cs, lang)
        name = 'lang-%s-%s.po' % (lang.replace('@', '_at_'), cs.lower())
        with open(os.path.join(d, name), 'w', encoding='ascii') as f:
            f.write(text)
        files.append(name)
    # header values that the tool rewrites before judging them (a locale name with an encoding, with a modifier or territory that is
    # dropped, an ISO 639-2 code, a date to be normalised), each in TWO files that differ otherwise: whatever is derived from a
    # value in one file must be derived afresh, from the text, in the next file that carries the same value
    for lang in ('de_DE.UTF-8', 'de_DE@euro', 'deu', 'ger', 'pl_PL', 'en_US.ISO-8859-1', 'sr_RS@latin', 'pt_BR.utf8@foo', 'EN_us', 'zh_CN.GB2312'):
        for k, cs in enumerate(('UTF-8', 'ISO-8859-1')):
            text = ('msgid ""\nmsgstr ""\n"PO-Revision-Date: 2012-11-0%d 14:42:07+0100\\n"\n"Content-Type: text/plain; charset=%s\\n"\n"Language: %s\\n"\n\n'
                    'msgid "a%d"\nmsgstr "b"\n') % (k + 1, cs, lang, k)
            name = 'lang-twin%d-%s.po' % (k, ''.join(c if c.isalnum() else '_' for c in lang))
            with open(os.path.join(d, name), 'w', encoding='ascii') as f:
                f.write(text)
            files.append(name)
    for i in range(8 if ctx.quick() else 60):
        cat, _ = pogen.hostile_catalog(rng, nslots=3)
        name = 'gen%d.%s' % (i, rng.choice(['po', 'pot']))
        with open(os.path.join(d, name), 'w', encoding='utf-8', errors='surrogateescape') as f:
            f.write(pogen.render(cat))
        files.append(name)
    return files


def check(ctx):
    build = common.coq_build()
    aud = common.audit(ctx.id, coqchk=not ctx.quick())
    rng = ctx.rng
    d = os.path.join(common.WORK, 'c03')
    shutil.rmtree(d, ignore_errors=True)
    os.makedirs(d)
    files = build_files(ctx, d)
    # ---- baseline: every file alone, -j1, seed 0
    base = {}
    with concurrent.futures.ThreadPoolExecutor(max_workers=common.NPROC) as ex:
        futs = {f: ex.submit(run_cli, [f], 0, d) for f in files}
        for f, fu in futs.items():
            base[f] = fu.result()
    ctx.evaluations += len(files)
    for f in files:
        if base[f][0]:
            ctx.nontriv(('base', f))
    # ---- configurations
    configs = []
    for seed in (0, 1, 2, 3, 'random'):
        configs.append(('seed=%s all files j=1' % seed, list(files), seed, []))
    for j in (2, 3, 16):
        configs.append(('j=%d all files seed=1' % j, list(files), 1, ['-j', str(j)]))
    nperm = 3 if ctx.quick() else 12
    for k in range(nperm):
        perm = list(files)
        rng.shuffle(perm)
        cut = rng.randrange(1, len(perm))
        configs.append(('permutation %d prefix %d j=1' % (k, cut), perm[:cut], rng.choice([0, 5, 'random']), []))
        configs.append(('permutation %d j=4' % k, perm, rng.choice([0, 7]), ['-j', '4']))
    # histories: the same file several times, and after every other file
    probe = ['brace-types.po']
    configs.append(('repeat', probe * 3, 2, []))
    # the same path named more than once, sequentially and with worker processes
    for j in (2, 4):
        configs.append(('repeat j=%d' % j, probe * 3, 1, ['-j', str(j)]))
        for k in range(2 if ctx.quick() else 8):
            a, b = rng.sample(files, 2)
            configs.append(('a b a (%d) j=%d' % (k, j), [a, b, a], 0, ['-j', str(j)]))
            configs.append(('a a b b a (%d) j=%d' % (k, j), [a, a, b, b, a], 3, ['-j', str(j)]))
    for pr in (['brace-types.po'], ['xgettext-template.pot']):
        for f in rng.sample(files, 6 if ctx.quick() else 30) + ['brace-types.po', 'xgettext-template.pot']:
            configs.append(('history %s before probe %s' % (f, pr[0]), [f] + pr, 3, []))
            configs.append(('history %s after probe %s' % (f, pr[0]), pr + [f], 0, []))
    lang_files = [f for f in files if f.startswith('lang-')]
    for k in range(len(lang_files)):
        configs.append(('language/charset files rotated by %d' % k, lang_files[k:] + lang_files[:k], 0, []))
    configs.append(('language/charset files reversed', lang_files[::-1], 1, []))
    configs.append(('language/charset files reversed j=2', lang_files[::-1], 1, ['-j', '2']))
    esc_files = [f for f in files if f.startswith('escaped-')]
    for k in range(len(esc_files)):
        configs.append(('escaped-bytes files rotated by %d' % k, esc_files[k:] + esc_files[:k], 0, []))
    configs.append(('-l pl, seeds differ', None, None, None))   # handled below

    def run_cfg(cfg):
        name, fl, seed, opts = cfg
        if fl is None:
            a = run_cli(['-l', 'pl'] + files, 0, d)
            b = run_cli(['-l', 'pl'] + files, 'random', d)
            c = run_cli(['-l', 'pl', '-j', '5'] + files, 4, d)
            return name, None, (a, b, c)
        return name, fl, run_cli(opts + fl, seed, d)
    with concurrent.futures.ThreadPoolExecutor(max_workers=max(2, common.NPROC // 2)) as ex:
        results = list(ex.map(run_cfg, configs))
    for name, fl, res in results:
        ctx.evaluations += 1
        ctx.count('config')
        if fl is None:
            a, b, c = res
            if not (a == b == c):
                ctx.fail('context-dependence', {'config': name}, 'outputs differ between seeds / job counts with -l pl: %r' % (first_diff(a[0], b[0]) or first_diff(a[0], c[0]),))
            continue
        out, err, rc = res
        want = ''.join(base[f][0] for f in fl)
        werr = ''.join(base[f][1] for f in fl)
        if out != want:
            ctx.fail('context-dependence', {'config': name, 'files': fl[:40]},
                     'stdout is not the concatenation of the single-file seed-0 -j1 outputs; first difference: %r' % (first_diff(out, want),))
        elif (rc != 0) != any(base[f][2] != 0 for f in fl) or (bool(err) != bool(werr)):
            ctx.fail('context-dependence', {'config': name}, 'exit status / stderr differ from the single-file runs: rc=%d stderr=%r' % (rc, err[-300:]))
        ctx.nontriv(('cfg', name))
    # ---- packages: the temporary directory they are unpacked into must not show in the output
    if shutil.which('dpkg-deb'):
        from harness import c17
        root = os.path.join(d, 'pkgroot')
        tree = os.path.join(root, 'tree')
        os.makedirs(os.path.join(tree, 'DEBIAN'))
        os.makedirs(os.path.join(tree, 'usr/share/po'))
        with open(os.path.join(tree, 'DEBIAN', 'control'), 'w') as f:
            f.write('Package: verif-test0\nVersion: 1.0\nArchitecture: all\nMaintainer: X <x@example.org>\nDescription: test\n')
        members = {'ok.po': open(os.path.join(d, 'brace-types.po'), 'rb').read(),
                   'syntax.po': b'msgid ""\nmsgstr ""\n"Content-Type: text/plain; charset=UTF-8\\n"\n\nmsgid "a"\nfoo bar\n',
                   'quote.po': b'msgid ""\nmsgstr ""\n"Content-Type: text/plain; charset=UTF-8\\n"\n\nmsgid "a"b"\nmsgstr ""\n',
                   'enc.po': b'msgid ""\nmsgstr ""\n"Content-Type: text/plain; charset=UTF-8\\n"\n\nmsgid "a"\nmsgstr "\xff"\n',
                   'bad.mo': b'\xde\x12\x04\x95\x00\x00\x00\x00\x05\x00\x00\x00junk'}
        for name, data in members.items():
            with open(os.path.join(tree, 'usr/share/po', name), 'wb') as f:
                f.write(data)
        pkgs = []
        if subprocess.run(['dpkg-deb', '--root-owner-group', '-b', tree, os.path.join(root, 'p.deb')], stdout=subprocess.PIPE, stderr=subprocess.PIPE).returncode == 0:
            pkgs.append('p.deb')
        if shutil.which('dpkg-source'):
            pkgs.append(os.path.basename(c17._write_dsc(root, tree, 0)))
        for pkg in pkgs:
            outs = []
            for k, (seed, opts) in enumerate([(0, []), (1, []), ('random', ['-j', '3'])]):
                tmp = os.path.join(root, 'tmp%d%s' % (k, 'x' * k))
                os.makedirs(tmp, exist_ok=True)
                outs.append(run_cli(['--unpack-deb'] + opts + [pkg], seed, root, {'TMPDIR': tmp}))
                ctx.evaluations += 1
                ctx.count('package-run')
            if not (sorted(outs[0][0].split('\n')) == sorted(outs[1][0].split('\n')) == sorted(outs[2][0].split('\n'))) or len({o[2] for o in outs}) != 1:
                ctx.fail('context-dependence', {'config': '--unpack-deb ' + pkg, 'members': sorted(members)},
                         'the diagnostics of a package differ between runs with different TMPDIR / hash seed / -j: %r' % (first_diff(outs[0][0], outs[1][0]) or first_diff(outs[0][0], outs[2][0]),))
            else:
                ctx.nontriv(('pkg', pkg))
        # a package followed / preceded by ordinary arguments: each argument's output is the one of its own single-file run (D28, fixed:
        # the options made for the package leaked to the later arguments of a sequential run)
        with open(os.path.join(root, 'other.txt'), 'w') as f:
            f.write('hello\n')
        shutil.copy(os.path.join(d, 'brace-types.po'), os.path.join(root, 'plain.po'))
        singles = {}
        for a in pkgs + ['other.txt', 'plain.po']:
            singles[a] = run_cli(['--unpack-deb', a], 0, root)
        for pkg in pkgs:
            for order in ([pkg, 'other.txt', 'plain.po'], ['other.txt', pkg, 'plain.po', 'other.txt'], ['plain.po', pkg, pkg, 'other.txt']):
                for seed, opts in [(0, []), (2, ['-j', '2']), (1, ['-j', '1'])]:
                    out, err, rc = run_cli(['--unpack-deb'] + opts + order, seed, root)
                    want = ''.join(singles[a][0] for a in order)
                    ctx.evaluations += 1
                    ctx.count('package-run')
                    # the members of one package may be walked in any order: compare per argument as sorted blocks
                    def blocks(text, args):
                        res, rest = [], text.split('\n')[:-1]
                        for a in args:
                            n = len(singles[a][0].split('\n')) - 1
                            res.append(sorted(rest[:n]))
                            rest = rest[n:]
                        return res + [rest]
                    if blocks(out, order) != blocks(want, order):
                        ctx.fail('context-dependence', {'config': '--unpack-deb ' + ' '.join(opts + order)},
                                 'the output is not the concatenation of the single-argument runs; first difference: %r' % (first_diff(out, want),), finding=None)
                    else:
                        ctx.nontriv(('pkgmix', pkg, tuple(order), tuple(opts)))
    # ---- on a terminal: the coloured output of a -j run equals the coloured output of the sequential run
    probe_files = [f for f in ('brace-types.po', 'xgettext-template.pot') if f in files] + lang_files[:2]
    try:
        t1 = run_pty(probe_files, d)
        if '\x1b[' in t1:
            for j in ('2', '4'):
                tj = run_pty(['-j', j] + probe_files, d)
                ctx.evaluations += 1
                ctx.count('pty-run')
                if tj != t1:
                    ctx.fail('context-dependence', {'config': 'stdout on a terminal (TERM=xterm), -j %s' % j, 'files': probe_files},
                             'the output on a terminal differs between the sequential run and -j %s; first difference: %r' % (j, first_diff(tj, t1)))
                else:
                    ctx.nontriv(('pty', j))
        else:
            ctx.notes.append('pseudo-terminal run printed no colour: the -j / terminal comparison was skipped')
    except OSError as e:
        ctx.notes.append('no pseudo-terminal available: %s' % e)
    ctx.samples = [{'config': c[0], 'nfiles': (len(c[1]) if c[1] else len(files))} for c in configs[:10]]
    ctx.stats['files'] = len(files)
    shutil.rmtree(d, ignore_errors=True)
    return common.finish(
        ctx, 'other', build, aud, TRUSTED, ASSUME,
        checker_cmd='tools/build.sh (coqc on Props/C03.v incl. vm_compute over the regenerated set-iteration sites) then coqc Audit_C03.v',
        rule='files = the repository\'s black-box PO/POT/MO files (every 3rd in quick) + catalogs exercising set/dict iteration + generated hostile catalogs; baseline = each file alone '
             '(-j1, PYTHONHASHSEED=0); configurations: all files under PYTHONHASHSEED in {0,1,2,3,random}; -j in {2,3,16}; random permutations and prefixes with -j 1/4; '
             'packages (.deb/.dsc with rejected members) unpacked under different TMPDIR / seeds / -j; repeated files (also under -j 2/4: a b a, a a b b a); pairs of files sharing a header value that the tool rewrites (locale names with encoding / modifier / territory / ISO 639-2 code, dates); probe file after other files (history); -l pl under different seeds and -j. Each run must equal the concatenation of the baselines. '
             'non-trivial = a configuration run, or a file whose baseline output is non-empty',
        explanation='Model-level theorems (parallel = sequential for every completion order; multi-file = concatenation; no order-sensitive set iteration in the regenerated ast table) '
                    'plus exploration of hash seeds, argument orders, prefixes/histories and job counts through the real CLI. Partial: real worker scheduling and process state are explored, not modelled.')


def first_diff(a, b):
    la, lb = a.split('\n'), b.split('\n')
    for i, (x, y) in enumerate(zip(la + [None] * (len(lb) - len(la)), lb + [None] * (len(la) - len(lb)))):
        if x != y:
            return (i, x, y)
    return None

"""In-process access to the real checker: a Checker subclass that records tag() calls."""
import argparse
import collections
import types

_state = {}


def get_checker_class():
    if 'cls' in _state:
        return _state['cls']
    from lib import check
    from lib import tags

    class RecordingChecker(check.Checker):
        def __init__(self, path, *, options):
            super().__init__(path, options=options)
            self.recorded = []

        def tag(self, tagname, *extra):
            if not tags.tag_exists(tagname):
                self.recorded.append(('<UNKNOWN-TAG>' + tagname, extra))
            else:
                self.recorded.append((tagname, extra))

    try:
        check.Checker.patch_environment()
    except check.EnvironmentAlreadyPatched:
        pass
    _state['cls'] = RecordingChecker
    return RecordingChecker


def make_options(language=None, file_type=None):
    return argparse.Namespace(language=language, unpack_deb=False, jobs=1, file_type=file_type,
                              traceback=False, ignore_tags=set(), fake_root=None)


def new_ctx(**kw):
    ctx = types.SimpleNamespace()
    ctx.metadata = collections.defaultdict(list)
    for k, v in kw.items():
        setattr(ctx, k, v)
    return ctx


def is_safestr(x):
    from lib import tags
    return isinstance(x, tags.safestr)

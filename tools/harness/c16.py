"""C16: message-level diagnostics match the documented conditions.

Streams
  (r) regex level: find_unusual_characters, search_for_conflict_marker, the XML trigger of _check_message_formats
      against the model's scanners, small-scope exhaustive over class-representative alphabets
  (f) _check_message_flags on flag lists (exhaustive pairs/triples over a vocabulary + random lists): tags in order,
      and the info object handed to the format checkers
  (c) whole catalogs from the entry grammar, rendered with pogen.render, through the real Checker.check();
      check_messages is observed in-process (entry position of every tag() call, the ctx it ran with);
      the model gets the entries as parsed (what the code saw), the ORACLE gets the generated structure
  (m) constructed MO contexts (is_binary, possible_hidden_strings) for the empty-file exemption
"""
import collections
import itertools
import os
import random
import re
import shutil
import sys

import common
from common import enc_str
from harness import pogen

TRUSTED = [
    'Coq 8.16.1 kernel (coqc, vm_compute); coqchk in thorough tier',
    'axioms: none (Print Assumptions must report "Closed under the global context" for every theorem of Props/C16.v)',
    'hand-written Gallina model Model/Messages.v of Checker.check_messages, _check_message_flags, _check_message_formats (dispatch), '
    '_check_message_xml_format, find_unusual_characters, gettext.search_for_conflict_marker, is_header_entry',
    'Spec/Messages.v: the documented conditions (data/tags descriptions + the property statement) read by a human',
    'Generated/StringFormats.v (gettext.string_formats), Generated/ControlChars.v (encodings._control_character_names), regenerated every run',
    'oracles, not modelled: expat through lib.xml.check_fragment (well-formed or error text), the Unicode predicate \\w, unicodedata names',
    'polib + lib/polib4us.py produce the entry list (C10 is about that step); the model starts from the parsed entries',
    'the `re` engine is replaced by scanners, tied per regex by small-scope exhaustive comparison',
    'extraction (ExtrOcamlBasic only) + ocaml/driver.ml',
    'source translator tools/gen/gen_messages_src.py (python ast of is_header_entry, _check_message_flags, _check_message_xml_format, _check_message_formats, check_messages -> Generated/MessagesSrc.v; rules in its docstring) and its target vocabulary Model/MessagesPy.v (loops, dicts, sets, view of a polib entry); C16_source_tie_* prove the translation equal to the model',
]
ASSUME = [
    'message_repr / safe_format (the text naming the message in extras) belong to C02; here the extras are checked to name the entry the tag was emitted for',
    'the tags of the four format checkers (C14) are replaced by recording stubs; only their dispatch is compared',
    'msgstr_plural is presented to the model in key order (misc.sorted_vk); the two uses of .values() in insertion order are order-insensitive (lemma nl_perm)',
]

# ---------------------------------------------------------------- canonical forms
DIRECT = {
    'duplicate-message-definition': 'dup', 'translation-in-template': 'tmpl', 'stray-previous-msgid': 'stray',
    'inconsistent-leading-newlines': 'lnl', 'inconsistent-trailing-newlines': 'tnl', 'partially-translated-message': 'partial',
}
COLON = {'invalid-range-flag': 'invalid-range', 'unknown-message-flag': 'unknown', 'duplicate-message-flag': 'dupflag'}


def _impl_modules():
    from harness import impl_checker as IC
    cls = IC.get_checker_class()
    if 'c16cls' in IC._state:
        return IC, IC._state['c16cls']

    class Stub:
        def __init__(self, owner, name):
            self.owner, self.name = owner, name

        def check_message(self, ctx, message, flags):
            self.owner.recorded.append(('@dispatch', (self.name,)))
            self.owner.positions.append(self.owner.cur)

    class Proxy:
        def __init__(self, f, owner):
            self._f, self._o = f, owner

        def __iter__(self):
            for i, e in enumerate(self._f):
                self._o.cur = i
                yield e
            self._o.cur = None

        def __getattr__(self, n):
            return getattr(self._f, n)

    class C16Checker(cls):
        def __init__(self, path, *, options):
            super().__init__(path, options=options)
            self.positions = []
            self.cur = None
            self.seen_ctx = None
            self.start = None
            self.xml_triggers = []
            for k in list(self._message_format_checkers):
                self._message_format_checkers[k] = Stub(self, k)

        def tag(self, tagname, *extra):
            super().tag(tagname, *extra)
            self.positions.append(self.cur)

        def check_messages(self, ctx):
            self.seen_ctx = ctx
            self.start = len(self.recorded)
            real = ctx.file
            ctx.file = Proxy(real, self)
            try:
                super().check_messages(ctx)
            finally:
                ctx.file = real

    IC._state['c16cls'] = C16Checker
    return IC, C16Checker


def canon_events(entries, events):
    """events: list of (position, tagname, extras) -> canonical strings identical to the driver's"""
    from lib.check.msgrepr import message_repr
    from lib import encodings as encinfo
    out = []
    for pos, name, extra in events:
        if name == 'empty-file':
            out.append('empty-file' if (pos is None and extra == ()) else 'empty-file!')
            continue
        if pos is None:
            out.append('other:%s@none' % name)
            continue
        e = entries[pos]
        pre = '@%d ' % pos
        ex = [str(x) for x in extra]
        if name == '@dispatch':
            out.append(pre + 'dispatch ' + enc_str(ex[0]))
            continue
        if name == 'range-flag-without-plural-string':
            out.append(pre + 'range-no-plural' + ('' if extra == () else '!extras'))
            continue
        ref = str(message_repr(e))
        refc = str(message_repr(e, template='{}:'))
        bad = ''
        if name in DIRECT:
            if ex != [ref]:
                bad = '!ref'
            out.append(pre + DIRECT[name] + bad)
        elif name in COLON:
            if len(ex) != 2 or ex[0] != refc:
                bad = '!ref'
            out.append(pre + COLON[name] + ' ' + enc_str(ex[-1]) + bad)
        elif name == 'conflicting-message-flags':
            if len(ex) != 3 or ex[0] != refc:
                bad = '!ref'
            out.append(pre + 'conflict ' + enc_str(ex[-2]) + ' ' + enc_str(ex[-1]) + bad)
        elif name == 'redundant-message-flag':
            m = re.fullmatch(r'\(implied by (.*)\)', ex[-1], re.S)
            if len(ex) != 3 or ex[0] != refc or m is None:
                bad = '!ref'
            out.append(pre + 'redundant ' + enc_str(ex[1] if len(ex) > 1 else '') + ' ' + enc_str(m.group(1) if m else '') + bad)
        elif name == 'malformed-xml':
            if len(ex) != 2 or ex[0] != refc:
                bad = '!ref'
            out.append(pre + 'xml ' + enc_str(ex[-1]) + bad)
        elif name == 'conflict-marker-in-translation':
            if len(ex) != 2 or ex[0] != ref:
                bad = '!ref'
            out.append(pre + 'cm ' + enc_str(ex[-1]) + bad)
        elif name == 'unusual-character-in-translation':
            cps = []
            for part in ex[-1].split(', '):
                m = re.match(r'U\+([0-9A-F]{4,6}) ', part)
                cps.append(int(m.group(1), 16) if m else -1)
            if -1 in cps:
                bad = '!names'
            else:
                again = ', '.join('U+%04X %s' % (c, encinfo.get_character_name(chr(c))) for c in cps)
                if len(ex) != 2 or ex[0] != refc or again != ex[-1]:
                    bad = '!ref'
            out.append(pre + 'unusual ' + ','.join(str(c) for c in cps) + bad)
        else:
            out.append(pre + 'other:' + name)
    return out


def opt(s):
    return '-' if s is None else enc_str(s)


def entry_view(e):
    """what check_messages reads of a polib entry"""
    pl = e.msgstr_plural
    return {
        'ctxt': e.msgctxt, 'msgid': e.msgid, 'plural': e.msgid_plural, 'msgstr': e.msgstr or '',
        'forms': [v for _, v in sorted(pl.items())],
        'flags': list(e.flags), 'obsolete': bool(e.obsolete),
        'prev': any(x is not None for x in (e.previous_msgctxt, e.previous_msgid, e.previous_msgid_plural)),
        'comment': e.comment or '',
    }


def enc_entry(v):
    parts = [opt(v['ctxt']), enc_str(v['msgid']), opt(v['plural']), enc_str(v['msgstr']), str(len(v['forms']))]
    parts += [enc_str(s) for s in v['forms']]
    parts.append(str(len(v['flags'])))
    parts += [enc_str(f) for f in v['flags']]
    parts += ['1' if v['obsolete'] else '0', '1' if v['prev'] else '0', enc_str(v['comment'])]
    return ' '.join(parts)


def word_chars(views):
    """the characters of the catalog that \\w matches and that stand right before U+00BF somewhere"""
    ws = set()
    for v in views:
        for s in [v['msgid'], v['plural'] or '', v['msgstr']] + v['forms']:
            for a, b in zip(s, s[1:]):
                if b == '\xbf' and re.match(r'\w', a):
                    ws.add(ord(a))
    return sorted(ws)


def xml_table(views):
    from lib import xml as lxml
    tab = {}
    for v in views:
        if not v['comment'].startswith('type:'):
            continue
        for s in (v['msgid'], v['msgstr']):
            if s in tab:
                continue
            try:
                lxml.check_fragment(s)
                tab[s] = None
            except lxml.SyntaxError as exc:
                tab[s] = str(exc)
    return tab


def request_line(views, template, binary, hidden, enc, maxd):
    ws = word_chars(views)
    xt = xml_table(views)
    parts = ['messages', '1' if template else '0', '1' if binary else '0', '1' if hidden else '0', '1' if enc else '0', str(maxd),
             str(len(ws))] + [str(w) for w in ws] + [str(len(xt))]
    for s, r in xt.items():
        parts += [enc_str(s), opt(r)]
    parts.append(str(len(views)))
    parts += [enc_entry(v) for v in views]
    return ' '.join(parts)


def maxdigits():
    import lib  # noqa
    return sys.get_int_max_str_digits() if hasattr(sys, 'get_int_max_str_digits') else 0


# ---------------------------------------------------------------- implementation runners
def run_catalog(payload):
    """write the catalog, run the real Checker.check(), observe check_messages"""
    idx, cat, ext = payload
    IC, cls = _impl_modules()
    d = os.path.join(common.WORK, 'c16', str(os.getpid()))
    os.makedirs(d, exist_ok=True)
    path = os.path.join(d, 'f%d.%s' % (idx, ext))
    with open(path, 'w', encoding='utf-8') as f:
        f.write(pogen.render(cat))
    chk = cls(path, options=IC.make_options())
    crash = None
    try:
        chk.check()
    except Exception as e:  # noqa
        crash = type(e).__name__
    finally:
        try:
            os.unlink(path)
        except OSError:
            pass
    ctx = chk.seen_ctx
    if ctx is None:
        return {'skipped': [n for n, _ in chk.recorded][:3], 'crash': crash}
    entries = list(ctx.file)
    views = [entry_view(e) for e in entries]
    ev = [(p, n, x) for p, (n, x) in zip(chk.positions[chk.start:], chk.recorded[chk.start:])]
    impl = 'crash ' + crash if crash else ' | '.join(['ok'] + canon_events(entries, ev))
    line = request_line(views, ctx.is_template, ctx.is_binary, False, ctx.encoding is not None, maxdigits())
    return {'impl': impl, 'line': line, 'views': views, 'enc': ctx.encoding is not None, 'template': ctx.is_template}


def run_mo(payload):
    """check_messages on a constructed MO context (entries shaped as lib/moparser.py builds them)"""
    ents, hidden, enc = payload
    import polib
    IC, cls = _impl_modules()
    chk = cls('/nonexistent/x.mo', options=IC.make_options())

    class MOList(list):
        pass
    f = MOList()
    f.possible_hidden_strings = hidden
    for e in ents:
        kw = dict(msgid=e['msgid'])
        if e.get('msgctxt') is not None:
            kw['msgctxt'] = e['msgctxt']
        if e.get('msgid_plural') is not None:
            kw['msgid_plural'] = e['msgid_plural']
            kw['msgstr_plural'] = dict(enumerate(e['msgstr_plural']))
        else:
            kw['msgstr'] = e['msgstr']
        m = polib.MOEntry(**kw)
        m.comment = None
        m.occurrences = ()
        m.flags = ()
        m.previous_msgctxt = m.previous_msgid = m.previous_msgid_plural = None
        f.append(m)
    ctx = IC.new_ctx(file=f, is_template=False, is_binary=True, encoding='UTF-8' if enc else None)
    crash = None
    try:
        chk.check_messages(ctx)
    except Exception as ex:  # noqa
        crash = type(ex).__name__
    entries = list(f)
    views = [entry_view(e) for e in entries]
    ev = [(p, n, x) for p, (n, x) in zip(chk.positions, chk.recorded)]
    impl = 'crash ' + crash if crash else ' | '.join(['ok'] + canon_events(entries, ev))
    return {'impl': impl, 'line': request_line(views, False, True, hidden, enc, maxdigits()), 'views': views}


def run_xml_ctx(payload):
    """check_messages on a constructed PO context: entries carrying the po4a comment, strings that no file can
    contain after decoding (lone surrogates) included"""
    ents, template, enc = payload
    import polib
    IC, cls = _impl_modules()
    chk = cls('/nonexistent/x.po', options=IC.make_options())
    f = []
    for e in ents:
        m = polib.POEntry(msgid=e['msgid'], msgstr=e['msgstr'], comment='\n'.join(e.get('extracted', [])))
        m._i18nspector_flags = list(e.get('flags', []))
        f.append(m)
    ctx = IC.new_ctx(file=f, is_template=template, is_binary=False, encoding='UTF-8' if enc else None)
    crash = None
    try:
        chk.check_messages(ctx)
    except Exception as ex:  # noqa
        crash = type(ex).__name__
    views = [entry_view(e) for e in f]
    ev = [(p, n, x) for p, (n, x) in zip(chk.positions, chk.recorded)]
    impl = 'crash ' + crash if crash else ' | '.join(['ok'] + canon_events(f, ev))
    return {'impl': impl, 'line': request_line(views, template, False, False, enc, maxdigits()), 'views': views}


def impl_flags(payload):
    has_plural, flags = payload
    import polib
    IC, cls = _impl_modules()
    chk = cls('/nonexistent/x.po', options=IC.make_options())
    kw = dict(msgid='m', msgstr='t')
    if has_plural:
        kw = dict(msgid='m', msgid_plural='ms', msgstr_plural={0: 't', 1: 'u'})
    e = polib.POEntry(**kw)
    e._i18nspector_flags = list(flags)      # exactly this list (the flags setter would split at commas)
    try:
        info = chk._check_message_flags(e)
    except Exception as ex:  # noqa
        return 'crash ' + type(ex).__name__
    chk.cur = 0
    ev = canon_events([e], [(0, n, x) for (n, x) in chk.recorded])
    ev = [x[3:] for x in ev]
    if info.range_min == 0 and info.range_max == float('inf'):
        rng = 'none'
    else:
        rng = '%d..%d' % (info.range_min, info.range_max)
    ev.append('info %d %s %s' % (1 if info.fuzzy else 0, rng, ';'.join(enc_str(f) for f in sorted(info.formats))))
    return ' | '.join(ev)


def impl_ucscan(s):
    from lib import check
    return enc_str(''.join(check.find_unusual_characters(s)))


def impl_cmarker(s):
    from lib import gettext
    m = gettext.search_for_conflict_marker(s)
    return 'none' if m is None else enc_str(m.group(0))


def impl_xmltrig(s):
    import types
    IC, cls = _impl_modules()
    chk = cls('/nonexistent/x.po', options=IC.make_options())
    hit = []
    chk._check_message_xml_format = lambda ctx, message, flags: hit.append(1)
    chk._check_message_formats(None, types.SimpleNamespace(comment=s), types.SimpleNamespace(formats=frozenset()))
    return '1' if hit else '0'


# ---------------------------------------------------------------- generators
MSGIDS = ['a', 'b', 'A quick fox', '\nlead', 'trail\n', '\nboth\n', 'x\x01y', 'esc\x1bz', '<p>ok</p>', '<p>bad', '', 'q¿', 'n\n', 'c']
CTXTS = [None, None, None, None, 'ctx', 'c2', '']
CORES = ['y', 'zz', 'u\x01', 'u\x02\x01', 'w\x1bx', 'w\x1b[0m', 'w\x1b', 'p¿', ' ¿', 'é¿', '_¿', '¿', '﻿bom', 'd\x7f', 'n\x85', 'nc￾', 'r�',
         '#-#-#-#-#  a.po  #-#-#-#-#\nfoo', 'x\n#-#-#-#-#  b  #-#-#-#-#', '#-#-#-#-#   #-#-#-#-#', ' #-#-#-#-#  a  #-#-#-#-#', '#-#-#-#-#  a  #-#-#-#-# ',
         '#-#-#-#-#    #-#-#-#-#', 'h\n#-#-#-#-#  \n  #-#-#-#-#', '<p>ok</p>', '<p>bad', '<b>x</c>', '&amp;', '&', 'tab\there', 'cr\rx', 'A quick fox']
FLAGS = ['fuzzy', 'c-format', 'no-c-format', 'possible-c-format', 'impossible-c-format', 'python-format', 'python-brace-format',
         'perl-brace-format', 'perl-format', 'java-format', 'kde-format', 'kde-kuit-format', 'qt-format', 'qt-plural-format', 'sh-format', 'lisp-format',
         'no-python-format', 'possible-python-format', 'impossible-python-format', 'possible-java-format', 'impossible-java-format',
         'wrap', 'no-wrap', 'markdown-text',
         'range:1..2', 'range: 1..2', 'range:01..2', 'range:0..5', 'range:3..4', 'range:1..3', 'range:2..2', 'range:5..1', 'range:', 'range:x..y', 'range:1..',
         'range:1...2', 'range:-1..2', 'range:1..2x', 'range:١..٢', 'range:\t7..9', 'Range:1..2', 'range:0..99999999999999999999',
         'fuzy', 'Fuzzy', 'c-Format', 'format', '-format', 'no-format', 'no--format', 'possible-format', 'impossible-no-c-format', 'no-no-c-format',
         'x-format', 'nowrap', '', 'markdown', 'python-brace', 'no-wrap-format', 'no-c', 'C-format', 'no-possible-c-format']
COMMENTS = [  # (extracted comment lines, is an XML trigger)
    ([], False), ([], False), ([], False),
    (['type: Content of: <para>'], True), (['type: Content of: <a><b:c>'], True), (['type: Content of: <_x.1-2>'], True),
    (['type: Content of: <é><a·b>'], True),
    (['type: Content of: <1a>'], False), (['type: Content of: '], False), (['type: Content of: <para>', 'second line'], False),
    (['type: Content of: <a>x'], False), (['Type: content of: <a>'], False), (['type: Content of: <a b>'], False), (['type: Content of: <>'], False),
    (['type: Content of: <a><'], False), (['type: Content of: <-a>'], False), (['x type: Content of: <a>'], False),
]


def gen_text(rng):
    if rng.random() < 0.12:
        return ''
    core = rng.choice(CORES) if rng.random() < 0.6 else rng.choice(['y', 'zz', 'A quick fox'])
    lead = '\n' if rng.random() < 0.2 else ''
    trail = '\n' if rng.random() < 0.2 else ''
    return lead + core + trail


def gen_flags(rng):
    r = rng.random()
    if r < 0.35:
        return []
    n = rng.choice([1, 1, 2, 2, 3, 4, 6])
    fl = [rng.choice(FLAGS) if rng.random() < 0.8 else rng.choice(['fuzzy', 'c-format', 'range:1..2', 'range:3..4', 'wrap', 'no-wrap']) for _ in range(n)]
    if rng.random() < 0.3:
        fl.append(rng.choice(fl))       # a duplicate
    if rng.random() < 0.1:
        fl.append(rng.choice(fl))
    rng.shuffle(fl)
    if fl == ['']:
        fl = ['', '']        # "#, " alone is not a flags line for polib
    return fl


def gen_entry(rng, ascii_only):
    e = {'msgid': rng.choice(MSGIDS), 'msgctxt': rng.choice(CTXTS)}
    if rng.random() < 0.35:
        e['msgid_plural'] = rng.choice(['as', 'as\n', '\nas', '', 'A quick foxes', 'p\x01'])
        k = rng.choice([1, 2, 2, 3])
        mode = rng.random()
        if mode < 0.25:
            e['msgstr_plural'] = [''] * k
        elif mode < 0.32:
            # a conflict marker in several translations of one message (reported once per message)
            e['msgstr_plural'] = [rng.choice(['#-#-#-#-#  a.po  #-#-#-#-#\nfoo', 'x\n#-#-#-#-#  b  #-#-#-#-#', '#-#-#-#-#  c.po  #-#-#-#-#']) for _ in range(k)]
        else:
            e['msgstr_plural'] = [gen_text(rng) for _ in range(k)]
    else:
        e['msgstr'] = gen_text(rng)
    e['flags'] = gen_flags(rng)
    if rng.random() < 0.12:
        e['obsolete'] = True
    r = rng.random()
    # previous-msgid annotations: each of the three fields absent, EMPTY (present: `#| msgid ""`) or non-empty
    if r < 0.12:
        e['prev_msgid'] = rng.choice(['old', 'old', ''])
    elif r < 0.17:
        e['prev_msgctxt'] = rng.choice(['oldctx', ''])
    elif r < 0.22 and 'msgid_plural' in e:
        e['prev_msgid_plural'] = rng.choice(['olds', ''])
    elif r < 0.27:
        e['prev_msgctxt'] = rng.choice(['oldctx', ''])
        e['prev_msgid'] = rng.choice(['old', ''])
        if 'msgid_plural' in e:
            e['prev_msgid_plural'] = rng.choice(['olds', ''])
    lines, trig = rng.choice(COMMENTS)
    e['extracted'] = list(lines)
    e['_trigger'] = trig
    if ascii_only:
        for k in ('msgid', 'msgid_plural', 'msgstr', 'msgctxt'):
            if isinstance(e.get(k), str) and not e[k].isascii():
                e[k] = 'ascii'
        if 'msgstr_plural' in e:
            e['msgstr_plural'] = [s if s.isascii() else 'ascii' for s in e['msgstr_plural']]
        e['flags'] = [f for f in e['flags'] if f.isascii()]
        if not all(c.isascii() for c in e['extracted']):
            e['extracted'], e['_trigger'] = [], False
    if e['flags'] == ['']:
        e['flags'] = ['', '']       # "#, " alone is not a flags line for polib (no item at all, rather than one empty item)
    if e.get('obsolete'):
        # polib attaches "#." and "#|" lines before "#~" entries to the entry as well; keep obsolete entries plain
        e['extracted'], e['_trigger'] = [], False
    return e


def gen_catalog(rng):
    cat = {'header_comments': ['generated'], 'header_flags': [], 'entries': []}
    r = rng.random()
    if r < 0.8:
        cat['header'] = pogen.base_header()
        cat['_enc'] = True
    elif r < 0.9:
        cat['header'] = [(k, v) for (k, v) in pogen.base_header() if k != 'Content-Type']
        cat['_enc'] = False
    else:
        cat['header'] = [(k, ('text/plain; charset=UNKNOWN-8' if k == 'Content-Type' else v)) for (k, v) in pogen.base_header()]
        cat['_enc'] = False
    n = rng.choice([0, 1, 1, 2, 3, 3, 4, 5, 6])
    cat['entries'] = [gen_entry(rng, not cat['_enc']) for _ in range(n)]
    if rng.random() < 0.15 and cat['entries']:
        # triple (or more) definitions of one message
        e = rng.choice(cat['entries'])
        for _ in range(rng.choice([1, 2, 3])):
            c = dict(e)
            cat['entries'].insert(rng.randrange(len(cat['entries']) + 1), c)
    return cat


def special_catalogs():
    """hand-made families: triple duplicates, unusual characters first seen in different entries, empty flag items, no messages"""
    out = []
    H = pogen.base_header()

    def mk(entries, enc=True):
        return {'header_comments': ['x'], 'header_flags': [], 'header': H, '_enc': enc, 'entries': [dict(e, extracted=e.get('extracted', []), _trigger=e.get('_trigger', False)) for e in entries]}
    out.append(mk([]))
    out.append(mk([{'msgid': 'o', 'msgstr': 'o', 'obsolete': True}]))
    out.append(mk([{'msgid': '', 'msgstr': 'second header'}]))
    for k in (2, 3, 4):
        out.append(mk([{'msgid': 'd', 'msgstr': 't%d' % i} for i in range(k)]))
        out.append(mk([{'msgid': 'd', 'msgctxt': 'c', 'msgstr': 't'}] + [{'msgid': 'd', 'msgstr': 't%d' % i} for i in range(k)]))
        out.append(mk([{'msgid': 'd', 'msgstr': 'x', 'obsolete': True}] + [{'msgid': 'd', 'msgstr': 't%d' % i} for i in range(k)]))
    out.append(mk([{'msgid': 'd', 'msgstr': 't'}, {'msgid': 'd', 'msgstr': 'x', 'obsolete': True}]))
    out.append(mk([{'msgid': 'd', 'msgctxt': '', 'msgstr': 't'}, {'msgid': 'd', 'msgstr': 'x'}]))
    for a, b, c in itertools.product(['u\x01', 'u\x02', 'u\x01\x02', 'plain'], repeat=3):
        out.append(mk([{'msgid': 'e1', 'msgstr': a}, {'msgid': 'e2', 'msgstr': b, 'flags': ['fuzzy']},
                       {'msgid': 'e3', 'msgid_plural': 'e3s', 'msgstr_plural': [c, a]}]))
    out.append(mk([{'msgid': 'x\x01', 'msgstr': 'u\x01'}, {'msgid': 'e2', 'msgstr': 'v\x01'}, {'msgid': 'e3', 'msgstr': 'w\x01'}]))
    out.append(mk([{'msgid': 'e1', 'msgstr': 'u\x01', 'obsolete': True}, {'msgid': 'e2', 'msgstr': 'v\x01'}]))
    for fl in (['', 'fuzzy'], ['', ''], ['fuzzy', ''], ['', '', 'c-format', 'c-format'], ['fuzzy', 'fuzzy'],
               ['range:1..2', 'range:1..2'], ['range:1..2', 'range: 1..2'], ['range:1..2', 'range:1..2', 'range:3..4'],
               ['range:3..4', 'range:1..2', 'range:0..9'], ['range:1..2', 'range:01..2', 'range:1..3']):
        out.append(mk([{'msgid': 'f', 'msgid_plural': 'fs', 'msgstr_plural': ['a', 'b'], 'flags': fl}]))
        out.append(mk([{'msgid': 'f', 'msgstr': 'a', 'flags': fl}]))
    for s in ('<p>ok</p>', '<p>bad', ''):
        for t in ('<p>ok</p>', '<p>bad', ''):
            for fl in ([], ['fuzzy']):
                out.append(mk([{'msgid': s or 'plain', 'msgstr': t, 'flags': fl, 'extracted': ['type: Content of: <para>'], '_trigger': True}]))
    out.append(pogen.base_catalog() | {'_enc': True})
    for e in out[-1]['entries']:
        e.setdefault('extracted', [])
        e['_trigger'] = False
    return out


# ---------------------------------------------------------------- the oracle: the documented rules on the generated structure
def read_string_formats():
    """data/string-formats read line by line (not through lib.gettext)"""
    tab = {}
    for line in open(os.path.join(common.REPO, 'data', 'string-formats'), encoding='ascii'):
        line = line.rstrip('\n')
        if not line or line.startswith('#') or line.startswith('['):
            continue
        name, _, ex = line.partition('=')
        tab[name.strip().lower()] = set(ex.split())
    return tab


def o_unusual(s):
    out = set()
    for k, ch in enumerate(s):
        c = ord(ch)
        if c < 0x20 and c not in (0x09, 0x0A, 0x1B):
            out.add(ch)
        elif c == 0x1B and s[k + 1:k + 2] != '[':
            out.add(ch)
        elif 0x7F <= c <= 0x9F or c in (0xFEFF, 0xFFFD, 0xFFFE, 0xFFFF):
            out.add(ch)
        elif c == 0xBF and k > 0 and (s[k - 1].isalnum() or s[k - 1] == '_'):
            out.add(ch)
    return out


def o_marker(s):
    for line in s.split('\n'):
        if line.startswith('#-#-#-#-#  ') and line.endswith('  #-#-#-#-#') and len(line) >= 23:
            return line
    return None


def o_range(f):
    m = re.fullmatch(r'range:[ \t\r\f\v]*([0-9]+)\.\.([0-9]+)[ \t\r\f\v]*', f, re.A)
    if m is None:
        return None
    i, j = int(m.group(1)), int(m.group(2))
    return (i, j) if i < j else None


def o_format(f, formats):
    if not f.endswith('-format'):
        return None
    for tp, prefix in (('no', 'no-'), ('possible', 'possible-'), ('impossible', 'impossible-'), ('', '')):
        if f.startswith(prefix) and len(f) >= len(prefix) + 7 and f[len(prefix):-7] in formats:
            return (tp, f[len(prefix):-7])
    return None


def o_flags(flags, has_plural, formats):
    """expected flag diagnostics as a multiset of canonical strings; second result: events the documented rule
    demands and the code is known not to give (finding D21)"""
    cnt = collections.Counter(flags)
    out, demanded = [], []
    ranges = {}
    fmts = {'': {}, 'no': {}, 'possible': {}, 'impossible': {}}
    for f in sorted(cnt):
        n = cnt[f]
        if f in ('fuzzy', 'wrap', 'no-wrap', 'markdown-text'):
            known = True
        elif f.startswith('range:'):
            known = True
            if not has_plural:
                out.append('range-no-plural')
            r = o_range(f)
            if r is None:
                out.append('invalid-range ' + enc_str(f))
            else:
                ranges.setdefault(r, {})[f] = n
        else:
            cl = o_format(f, formats)
            known = cl is not None
            if cl:
                fmts[cl[0]][cl[1]] = f
        if not known:
            out.append('unknown ' + enc_str(f))
        if n > 1 and f != '' and not (f.startswith('range:') and o_range(f) is not None):
            out.append('dupflag ' + enc_str(f))
    if 'wrap' in cnt and 'no-wrap' in cnt:
        out.append('conflict %s %s' % (enc_str('wrap'), enc_str('no-wrap')))
    if len(ranges) == 1:
        [sp] = ranges.values()
        if sum(sp.values()) > 1:
            out.append('dupflag ' + enc_str(min(sp)))
    elif len(ranges) > 1:
        r1, r2 = sorted(ranges)[:2]
        out.append('conflict %s %s' % (enc_str(min(ranges[r1])), enc_str(min(ranges[r2]))))
        for r in sorted(ranges):
            for f in sorted(ranges[r]):
                if ranges[r][f] > 1:
                    demanded.append('dupflag ' + enc_str(f))      # identical flags, masked by the range conflict
    pos = fmts['']
    for a, b in itertools.combinations(sorted(pos), 2):
        if not (formats[a] & formats[b]):
            out.append('conflict %s %s' % (enc_str(pos[a]), enc_str(pos[b])))
    for p, n in (('', 'no'), ('', 'impossible'), ('possible', 'impossible')):
        for name in sorted(set(fmts[p]) & set(fmts[n])):
            out.append('conflict %s %s' % (enc_str(fmts[p][name]), enc_str(fmts[n][name])))
    for name in sorted(set(pos) & set(fmts['possible'])):
        out.append('redundant %s %s' % (enc_str(fmts['possible'][name]), enc_str(pos[name])))
    return out, demanded


def o_wellformed(s):
    import xml.parsers.expat as expat
    rnd = random.Random(repr(s))
    root = 'r' + ''.join(rnd.choice('abcdefghij') for _ in range(10))
    p = expat.ParserCreate('UTF-8')
    try:
        p.Parse(('<%s>%s</%s>' % (root, s, root)).encode('utf-8', 'surrogatepass'), True)
        return True
    except expat.ExpatError:
        return False


def oracle(cat, template, formats, offset=1, binary=False, hidden=False):
    """expected message-level tags (canonical strings, as a multiset) from the generated structure"""
    exp, demanded = [], []
    counter = collections.Counter()
    found = set()
    enc = cat['_enc']
    for k, e in enumerate(cat['entries']):
        i = k + offset
        pre = '@%d ' % i
        if e.get('obsolete'):
            continue
        ctxt = e.get('msgctxt')
        msgid = e['msgid']
        if msgid == '' and ctxt is None:
            continue
        plural = e.get('msgid_plural')
        forms = e.get('msgstr_plural', []) if plural is not None else []
        msgstr = e.get('msgstr', '') if plural is None else ''
        flags = e.get('flags', [])
        fuzzy = 'fuzzy' in flags
        fl, dm = o_flags(flags, plural is not None, formats)
        exp += [pre + x for x in fl]
        demanded += [pre + x for x in dm]
        if e.get('_trigger') and enc:
            if not o_wellformed(msgid):
                if template:
                    exp.append(pre + 'xml')
            elif not fuzzy and msgstr and not o_wellformed(msgstr):
                exp.append(pre + 'xml')
        counter[msgid, ctxt] += 1
        if counter[msgid, ctxt] == 2:
            exp.append(pre + 'dup')
        trans = ([msgstr] if msgstr else []) + (forms if any(forms) else [])
        if template and trans:
            exp.append(pre + 'tmpl')
        if any(e.get(x) is not None for x in ('prev_msgid', 'prev_msgctxt', 'prev_msgid_plural')) and not fuzzy:
            exp.append(pre + 'stray')
        considered = ([plural] if plural is not None else []) + ([] if fuzzy else trans)
        if any(s.startswith('\n') != msgid.startswith('\n') for s in considered):
            exp.append(pre + 'lnl')
        if any(s.endswith('\n') != msgid.endswith('\n') for s in considered):
            exp.append(pre + 'tnl')
        if enc:
            explained = o_unusual(msgid) | o_unusual(plural or '')
            for s in trans:
                uc = o_unusual(s) - explained - found
                if uc:
                    exp.append(pre + 'unusual ' + ','.join(str(ord(c)) for c in sorted(uc)))
                    found |= uc
        if not fuzzy:
            for s in trans:
                m = o_marker(s)
                if m is not None:
                    exp.append(pre + 'cm ' + enc_str(m))
                    break
            if any(forms) and not all(forms):
                exp.append(pre + 'partial')
    if not counter and not (binary and hidden):
        exp.append('empty-file')
    return exp, demanded


def structure_matches(cat, views, offset):
    if len(views) != len(cat['entries']) + offset:
        return False
    for e, v in zip(cat['entries'], views[offset:]):
        plural = e.get('msgid_plural')
        want = (e.get('msgctxt'), e['msgid'], plural, e.get('msgstr', '') if plural is None else '',
                list(e.get('msgstr_plural', [])) if plural is not None else [], list(e.get('flags', [])), bool(e.get('obsolete')),
                any(e.get(x) is not None for x in ('prev_msgid', 'prev_msgctxt', 'prev_msgid_plural')), '\n'.join(c.rstrip() for c in e.get('extracted', [])))   # polib drops trailing blanks of a comment line
        got = (v['ctxt'], v['msgid'], v['plural'], v['msgstr'], v['forms'], v['flags'], v['obsolete'], v['prev'], v['comment'])
        if want != got:
            return False
    return True


def strip_xml_text(ev):
    """the oracle does not predict expat's message text, nor the dispatch events"""
    out = []
    for x in ev:
        m = re.fullmatch(r'(@\d+ xml) .*', x)
        if m:
            out.append(m.group(1))
        elif ' dispatch ' in x:
            continue
        else:
            out.append(x)
    return out


def judge(ctx, what, inp, impl_line, exp, demanded):
    """oracle verdict: multiset comparison of the implementation's tags with the documented rules"""
    if not impl_line.startswith('ok'):
        ctx.fail('crash', inp, '%s: check_messages raised %s' % (what, impl_line))
        return
    per_entry = {}
    for x in impl_line.split(' | ')[1:]:
        m = re.fullmatch(r'(@\d+) dispatch (s[0-9,]*)', x)
        if m:
            per_entry.setdefault(m.group(1), []).append(common.dec_str(m.group(2)))
    for pos, names in per_entry.items():
        if names != sorted(set(names)):
            ctx.fail('dispatch-order', inp, '%s: the format checkers of %s ran in the order %r, not in increasing order of their names' % (what, pos, names))
    got = collections.Counter(strip_xml_text(impl_line.split(' | ')[1:]))
    want = collections.Counter(exp)
    dem = collections.Counter(demanded)
    if got == want + dem:
        return
    if got == want and demanded:
        ctx.fail('masked-duplicate-range-flag', inp,
                 'identical range: flags are not reported as duplicate-message-flag when another range value is present: missing %r' % sorted(dem),
                 finding='D21')
        return
    missing = sorted((want - got).elements())
    extra = sorted((got - want).elements())
    kind = 'rule-mismatch'
    for x in missing + extra:
        m = re.match(r'(?:@\d+ )?([a-z-]+)', x)
        if m:
            kind = 'rule-' + m.group(1)
            break
    ctx.fail(kind, inp, '%s: tags the documented rules demand but the tool did not emit: %r; tags emitted without a violated rule: %r' % (what, missing, extra))


# ---------------------------------------------------------------- check
def words_of(s):
    return sorted({ord(a) for a in set(s) if re.match(r'\w', a)})


def check(ctx):
    build = common.coq_build()
    aud = common.audit(ctx.id, coqchk=not ctx.quick())
    rng = ctx.rng
    quick = ctx.quick()
    maxd = maxdigits()
    sys.path.insert(0, common.REPO)
    formats = read_string_formats()

    # ---- (r) regex level
    UA = ['a', '\xbf', '\x1b', '[', '\x00', '\x9f', '﻿', '\n', '_', ' ', '\t', '\x1a', '\x1c', '\x7f', '\xa0', '�', '￿', 'é']
    cases = []
    for k in range(0, 4 if quick else 5):
        for seq in itertools.product(UA if k <= 3 else UA[:9], repeat=k):
            cases.append(''.join(seq))
    for c in list(range(0, 0x120)) + [0xfeff, 0xfffc, 0xfffd, 0xfffe, 0xffff, 0x10000, 0x10ffff, 0x2028, 0xd800]:
        cases += [chr(c), 'a' + chr(c), chr(c) + '\xbf', '\x1b' + chr(c)]
    req = [('ucscan %s %s' % (' '.join([str(len(words_of(s)))] + [str(w) for w in words_of(s)]), enc_str(s)), s) for s in cases]
    res = common.compare_parallel('harness.c16', 'impl_ucscan', req)
    for (line, s, m, r) in res:
        if m != r:
            ctx.disagree('find_unusual_characters', {'string': repr(s)}, m, r)
        if r != 's':
            ctx.nontriv(('uc', s))
        if all(ch in UA for ch in s) and set(common.dec_str(r)) != o_unusual(s):
            ctx.fail('unusual-class', {'string': repr(s)}, 'find_unusual_characters gives %r, the documented class gives %r' % (
                sorted(set(common.dec_str(r))), sorted(o_unusual(s))))
    ctx.count('regex_unusual_cases', len(res))
    ctx.evaluations += len(res)
    MT = ['#-#-#-#-#', ' ', '  ', 'x', '\n', '#', '-', '\r']
    cases = []
    for k in range(0, 6 if quick else 7):
        for seq in itertools.product(MT, repeat=k):
            cases.append(''.join(seq))
    req = [('cmarker ' + enc_str(s), s) for s in cases]
    res = common.compare_parallel('harness.c16', 'impl_cmarker', req)
    for (line, s, m, r) in res:
        if m != r:
            ctx.disagree('search_for_conflict_marker', {'string': repr(s)}, m, r)
        if r != 'none':
            ctx.nontriv(('cm', s))
        o = o_marker(s)
        if r != ('none' if o is None else enc_str(o)):
            ctx.fail('marker-rule', {'string': repr(s)}, 'search_for_conflict_marker gives %r, the documented marker shape gives %r' % (r, o))
    ctx.count('regex_marker_cases', len(res))
    ctx.evaluations += len(res)
    XT = ['type: Content of: ', '<', '>', 'a', '-', '1', ':', ' ', '\n', 'é', '·', '×', '.']
    cases = []
    for k in range(0, 5 if quick else 6):
        for seq in itertools.product(XT[1:], repeat=k):
            cases.append(XT[0] + ''.join(seq))
            if k <= 2:
                cases.append(''.join(seq) + XT[0] + '<a>')
                cases.append(XT[0][:-1] + ''.join(seq))
    for c in list(range(0, 0x400)) + [0x037e, 0x1fff, 0x2000, 0x200c, 0x200e, 0x203f, 0x2041, 0x206f, 0x2070, 0x218f, 0x2190, 0x2bff, 0x2c00, 0x2fef, 0x2ff0, 0x3000, 0x3001, 0xd7ff,
                                         0xe000, 0xf8ff, 0xf900, 0xfdcf, 0xfdd0, 0xfdef, 0xfdf0, 0xfffd, 0xfffe, 0x10000, 0xeffff, 0xf0000, 0x10ffff]:
        cases += [XT[0] + '<' + chr(c) + '>', XT[0] + '<a' + chr(c) + '>']
    req = [('xmltrig ' + enc_str(s), s) for s in cases]
    res = common.compare_parallel('harness.c16', 'impl_xmltrig', req)
    for (line, s, m, r) in res:
        if m != r:
            ctx.disagree('xml_trigger', {'string': repr(s)}, m, r)
        if r == '1':
            ctx.nontriv(('xt', s))
    ctx.count('regex_xmltrigger_cases', len(res))
    ctx.evaluations += len(res)

    # ---- (f) flag lists
    fcases = []
    for a in FLAGS:
        fcases.append([a])
        fcases.append([a, a])
    for a, b in itertools.product(FLAGS, repeat=2):
        fcases.append([a, b])
    sub = ['fuzzy', 'c-format', 'no-c-format', 'possible-c-format', 'impossible-c-format', 'python-format', 'java-format', 'wrap', 'no-wrap',
           'range:1..2', 'range: 1..2', 'range:3..4', 'range:0..5', 'range:2..2', '', 'x-format']
    for t in itertools.product(sub, repeat=3):
        fcases.append(list(t))
    for name in sorted(formats):
        for pre in ('', 'no-', 'possible-', 'impossible-'):
            fcases.append([pre + name + '-format'])
    for a, b in itertools.combinations(sorted(formats), 2):
        fcases.append([a + '-format', b + '-format'])
    for _ in range(3000 if quick else 60000):
        fcases.append(gen_flags(rng) + gen_flags(rng))
    fcases.append(['range:0..' + '9' * 5000])
    fcases.append(['range:' + '1' * 4301 + '..' + '2' * 4301, 'fuzzy'])
    req = []
    for fl in fcases:
        for hp in (False, True):
            req.append(('msgflags %d %d %d %s' % (maxd, 1 if hp else 0, len(fl), ' '.join(enc_str(f) for f in fl)), (hp, fl)))
    res = common.compare_parallel('harness.c16', 'impl_flags', req)
    for (line, payload, m, r) in res:
        if m != r:
            ctx.disagree('_check_message_flags', {'has_plural': payload[0], 'flags': payload[1] if len(str(payload[1])) < 500 else str(payload[1])[:500]}, m[:600], r[:600])
        for it in r.split(' | ')[:-1]:
            ctx.count('flagtag:' + it.split(' ')[0])
        if ' | ' in r:
            ctx.nontriv(('fl', payload[0], tuple(payload[1])))
        if r.startswith('crash'):
            ctx.fail('crash', {'flags': str(payload[1])[:300]}, '_check_message_flags raised ' + r)
            continue
        exp, dem = o_flags(payload[1], payload[0], formats)
        judge(ctx, '_check_message_flags', {'has_plural': payload[0], 'flags': payload[1] if len(str(payload[1])) < 500 else str(payload[1])[:500]},
              ' | '.join(['ok'] + r.split(' | ')[:-1]), exp, dem)
    ctx.count('flag_cases', len(res))
    ctx.evaluations += len(res)

    # ---- (c) catalogs
    ncat = 1500 if quick else 40000
    payloads = []
    cats = special_catalogs()
    kinds = []
    for c in cats:
        for ext in ('po', 'pot'):
            payloads.append((len(payloads), c, ext))
    for i in range(ncat):
        payloads.append((len(payloads), gen_catalog(rng), rng.choice(['po', 'po', 'pot'])))
    shutil.rmtree(os.path.join(common.WORK, 'c16'), ignore_errors=True)
    results = common.pmap('harness.c16', 'run_catalog', payloads, per_case_timeout=120)
    lines = [r['line'] for r in results if isinstance(r, dict) and 'line' in r]
    model = iter(common.run_driver(lines))
    nmatch = 0
    for (idx, cat, ext), r in zip(payloads, results):
        if not isinstance(r, dict) or 'line' not in r:
            ctx.count('catalog:not-reached:' + (str(r.get('skipped')) if isinstance(r, dict) else str(r)))
            continue
        m = next(model)
        ctx.evaluations += 1
        text = pogen.render(cat)
        if m != r['impl']:
            ctx.disagree('check_messages', {'catalog': text[:3000], 'kind': ext}, m[:1500], r['impl'][:1500])
        for it in r['impl'].split(' | ')[1:]:
            parts = it.split(' ')
            ctx.count('tag:' + (parts[1] if it.startswith('@') and len(parts) > 1 else parts[0]))
        if ' | ' in r['impl']:
            ctx.nontriv(('cat', r['impl']))
        if r['enc'] != cat['_enc'] or r['template'] != (ext == 'pot') or not structure_matches(cat, r['views'], 1):
            ctx.count('catalog:structure-differs-after-parse')     # judged all the same: the rules speak about the file as written
        nmatch += 1
        exp, dem = oracle(cat, ext == 'pot', formats)
        judge(ctx, 'check_messages', {'catalog': text[:3000], 'kind': ext}, r['impl'], exp, dem)
    ctx.count('catalogs', len(payloads))
    ctx.count('catalogs_judged_by_oracle', nmatch)
    shutil.rmtree(os.path.join(common.WORK, 'c16'), ignore_errors=True)

    # ---- (m) MO contexts
    mos = []
    ents_pool = [[], [{'msgid': '', 'msgstr': 'Project-Id-Version: x\n'}], [{'msgid': '', 'msgstr': 'h'}, {'msgid': 'a', 'msgstr': 'b'}],
                 [{'msgid': 'a', 'msgstr': ''}], [{'msgid': '', 'msgctxt': 'c', 'msgstr': 'x'}],
                 [{'msgid': 'a', 'msgid_plural': 'as', 'msgstr_plural': ['x', '']}, {'msgid': 'a', 'msgstr': 'u\x01\n'}]]
    for ents in ents_pool:
        for hidden in (False, True):
            for enc in (False, True):
                mos.append((ents, hidden, enc))
    mres = common.pmap('harness.c16', 'run_mo', mos, nproc=1)
    mmodel = common.run_driver([r['line'] for r in mres])
    for (ents, hidden, enc), r, m in zip(mos, mres, mmodel):
        ctx.evaluations += 1
        if m != r['impl']:
            ctx.disagree('check_messages(mo)', {'entries': ents, 'hidden': hidden, 'enc': enc}, m, r['impl'])
        cat = {'entries': [dict(e, _trigger=False) for e in ents], '_enc': enc}
        exp, dem = oracle(cat, False, formats, offset=0, binary=True, hidden=hidden)
        judge(ctx, 'check_messages(mo)', {'entries': ents, 'hidden': hidden, 'enc': enc}, r['impl'], exp, dem)
        if 'empty-file' in r['impl']:
            ctx.nontriv(('mo', str(ents), hidden))
    ctx.count('mo_contexts', len(mos))

    # ---- (x) constructed PO contexts for the XML branch, lone surrogates included (D26)
    xs = []
    XS = ['<p>ok</p>', '<p>bad', 'plain', '\udc80', '<p>\ud800</p>', 'a\udfffb', '&amp;', '&', '']
    for a in XS:
        for b in XS:
            for fl in ([], ['fuzzy']):
                for tmpl in (False, True):
                    for trig in (True, False):
                        xs.append(([{'msgid': a or 'id', 'msgstr': b, 'flags': fl,
                                     'extracted': ['type: Content of: <para>'] if trig else ['type: Content of: <1>'], '_trigger': trig}], tmpl, True))
    xs.append(([{'msgid': '<p>\udc80', 'msgstr': '\udc80', 'flags': [], 'extracted': ['type: Content of: <para>'], '_trigger': True}], False, False))
    xres = common.pmap('harness.c16', 'run_xml_ctx', xs)
    xmodel = common.run_driver([r['line'] for r in xres])
    for (ents, tmpl, enc), r, m in zip(xs, xres, xmodel):
        ctx.evaluations += 1
        inp = {'entries': [{k: repr(v) for k, v in e.items()} for e in ents], 'template': tmpl, 'enc': enc}
        if m != r['impl']:
            ctx.disagree('check_messages(xml ctx)', inp, m, r['impl'])
        cat = {'entries': ents, '_enc': enc}
        exp, dem = oracle(cat, tmpl, formats, offset=0)
        judge(ctx, 'check_messages(xml ctx)', inp, r['impl'], exp, dem)
        if ' xml ' in r['impl']:
            ctx.nontriv(('xml', repr(ents), tmpl))
    ctx.count('xml_contexts', len(xs))

    ctx.samples = [{'catalog_tail': pogen.render(p[1])[-400:], 'kind': p[2]} for p in payloads[len(cats) * 2:len(cats) * 2 + 4]] + \
                  [{'flags': fl} for fl in fcases[::max(1, len(fcases) // 4)]][:4]
    return common.finish(
        ctx, 'proof', build, aud, TRUSTED, ASSUME,
        checker_cmd='tools/build.sh (coq_makefile + make: coqc on Props/C16.v, incl. vm_compute over the regenerated string-format and control-character tables) then coqc Audit_C16.v',
        rule='(r) the three scanners vs the real regexes on all strings up to length 3-6 over class-representative alphabets (+ every code point < U+0120 / < U+0400 in context); '
             '(f) model check_flags vs Checker._check_message_flags (ordered tags + info.fuzzy/range/formats) on every single flag, pair, and triples over a 16-flag core, '
             'every format name with the four prefixes, random lists with duplicates/typos/empty items/ranges; '
             '(c) catalogs from the entry grammar (hand-made families + seeded random), kinds po/pot, rendered with pogen.render, through the real Checker.check(): '
             'ordered (entry position, tag, extras) of check_messages vs the model on the entries as parsed; '
             'ORACLE: the documented rules restated in Python on the generated structure, multiset comparison with the tool\'s tags; '
             '(m) constructed MO contexts for the possible_hidden_strings exemption; (x) constructed PO contexts for the XML branch incl. lone surrogates; '
             'the dispatch of the format checkers must be in increasing name order. '
             'non-trivial = distinct input that produced at least one tag / a scanner hit')

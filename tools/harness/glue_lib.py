"""The orchestration Checker.check() of lib/check/__init__.py against Model/Check.v (driver op checktop).

The REAL Checker.check runs in-process (a subclass of impl_checker's RecordingChecker) with
  os.stat, polib.pofile, polib.mofile   replaced by stubs that follow a scripted outcome (inside the worker, restored afterwards)
  the nine check_* methods               replaced by recorders (only the orchestration runs)
and everything observable is compared with the model: the tag() calls (name; class safestr / str / bytes and value of every
argument), their order, the constructor calls (which one, encoding= keyword), the sub-checks in call order with the ctx flags they
see, and what propagates out of check().

A case = (stat, file_type, path, fake_root, first, retry); every part is a tuple of ints / strings (JSON-friendly):
  stat   ('ok',) | ('oserr', errno, strerror) | ('other', class name)
  first / retry (outcome of the 1st / 2nd constructor call)
         ('file',) | ('dec', (byte, ...), start, encoding name) | ('mosyn', message) | ('errno', errno, strerror)
         | ('noerrno', (args of OSError, ...)) | ('other', class name)

oracle(): decides the property clauses on the implementation WITHOUT the model (written from the statements of C01 / C09 / C17
and the documented behaviour, with string operations instead of the code's regular expressions)."""
import json
import os
import struct

import common

SEP = '\x1f'
P = 'Syntax error in po file '
SUBCHECKS = ['check_comments', 'check_headers', 'check_language', 'check_plurals', 'check_mime',
             'check_dates', 'check_project', 'check_translator', 'check_messages']
OTHER_CLASSES = {'ValueError': ValueError, 'UnicodeError': UnicodeError, 'KeyError': KeyError, 'LookupError': LookupError,
                 'AttributeError': AttributeError, 'error': struct.error, 'UnicodeEncodeError': None, 'AssertionError': AssertionError,
                 'EOFError': EOFError, 'MemoryError': MemoryError}

_env = {}


def tup(x):
    """nested lists (a payload read back from a replay file) -> nested tuples"""
    if isinstance(x, (list, tuple)):
        return tuple(tup(y) for y in x)
    return x


# ---------------------------------------------------------------- implementation side
def setup():
    if 'cls' in _env:
        return _env['cls']
    common.ensure_path()
    from harness import impl_checker as IC
    base = IC.get_checker_class()
    missing = object()

    def recorder(name):
        def rec(self, ctx):
            enc = getattr(ctx, 'encoding', missing)
            state = 'unset' if enc is missing else ('none' if enc is None else 'set')
            self.subs.append((name, getattr(ctx, 'is_template', '?'), getattr(ctx, 'is_binary', '?'), state, id(ctx), getattr(ctx, 'file', None)))
            if name == 'check_mime':
                ctx.encoding = 'X-SCRIPTED'      # the real check_mime sets ctx.encoding
        rec.__name__ = name
        return rec
    ns = {n: recorder(n) for n in SUBCHECKS}

    def init(self, path, *, options):
        base.__init__(self, path, options=options)
        self.subs = []
    ns['__init__'] = init
    _env['cls'] = type('GlueChecker', (base,), ns)
    return _env['cls']


def make_exc(res):
    from lib import moparser
    k = res[0]
    if k == 'dec':
        return UnicodeDecodeError(res[3], bytes(res[1]), res[2], res[2] + 1, 'invalid start byte')
    if k == 'mosyn':
        return moparser.SyntaxError(res[1])
    if k == 'errno':
        return OSError(res[1], res[2])
    if k == 'noerrno':
        return OSError(*res[1])
    if k == 'other':
        if res[1] == 'UnicodeEncodeError':
            return UnicodeEncodeError('ascii', '\xe9', 0, 1, 'scripted')
        return OTHER_CLASSES[res[1]]('scripted')
    raise AssertionError(k)


def noerrno_message(res):
    return str(OSError(*res[1]))


def arg_s(x):
    from lib import tags
    if isinstance(x, tags.safestr):
        return 'safe:' + common.enc_str(x)
    if isinstance(x, bytes):
        return 'bytes:' + common.enc_bytes(x)
    if isinstance(x, str):
        return 'str:' + common.enc_str(x)
    return 'object:' + type(x).__name__


def run_real(payload):
    """-> (canonical line, extras dict)"""
    stat, ft, path, fake_root, first, retry = payload
    cls = setup()
    import polib
    from harness import impl_checker as IC
    opts = IC.make_options(file_type=ft)
    if fake_root is not None:
        opts.fake_root = tuple(fake_root)
    chk = cls(path, options=opts)
    calls = []
    thrown = []
    stat_calls = []
    sentinel = object()
    real_stat = os.stat
    real_po, real_mo = polib.pofile, polib.mofile

    def fake_stat(p, *a, **kw):
        stat_calls.append(p)
        if stat[0] == 'ok':
            return real_stat('/')
        if stat[0] == 'oserr':
            exc = OSError(stat[1], stat[2], p)
        else:
            exc = OTHER_CLASSES[stat[1]]('embedded null byte')
        thrown.append(exc)
        raise exc

    def ctor(kind):
        def f(*a, **kw):
            calls.append((kind, a, dict(kw)))
            if len(calls) > 2:
                raise AssertionError('third constructor call')
            res = first if len(calls) == 1 else retry
            if res[0] == 'file':
                return sentinel
            exc = make_exc(res)
            thrown.append(exc)
            raise exc
        return f
    exc = None
    os.stat = fake_stat
    polib.pofile = ctor('po')
    polib.mofile = ctor('mo')
    try:
        chk.check()
    except common.CaseTimeout:
        raise
    except RecursionError:
        raise
    except Exception as e:  # noqa
        exc = e
    finally:
        os.stat = real_stat
        polib.pofile, polib.mofile = real_po, real_mo
    # ---- canonical line (same shape as the driver's)
    evs = [' '.join(['ev ' + t] + [arg_s(x) for x in extra]) for t, extra in chk.recorded]
    cs = []
    for kind, a, kw in calls:
        enc = kw.get('encoding')
        s = kind + ':' + ('-' if enc is None else common.enc_str(enc) if isinstance(enc, str) else '?' + type(enc).__name__)
        if a != (path,) or set(kw) - {'encoding'}:
            s += '!args=%r,%r' % (a, sorted(kw))
        cs.append(s)
    if exc is not None:
        if isinstance(exc, UnicodeDecodeError):
            end = 'raised UnicodeDecodeError'
        elif isinstance(exc, OSError):
            end = 'raised OSError ' + common.enc_str(str(exc))
        else:
            end = 'raised other ' + common.enc_str(type(exc).__name__)
    elif chk.subs:
        t, b = chk.subs[0][1], chk.subs[0][2]
        r = any(s[3] == 'none' for s in chk.subs)
        end = 'run %d%d%d %s' % (t is True, b is True, r, ','.join('%s:%d' % (s[0], s[3] == 'none') for s in chk.subs))
    else:
        end = 'returned'
    line = 'events=%s ; calls=%s ; end=%s' % (' | '.join(evs) or '-', ','.join(cs) or '-', end)
    # ---- what the oracle looks at
    subs = chk.subs
    extras = {
        'tags': [[t, [arg_s(x) for x in extra]] for t, extra in chk.recorded],
        'ncalls': len(calls),
        'call_kinds': [c[0] for c in calls],
        'stat_calls': stat_calls,
        'exc': None if exc is None else type(exc).__name__,
        'exc_is_scripted': exc is not None and bool(thrown) and exc is thrown[-1],
        'subs': [s[0] for s in subs],
        'sub_flags': sorted({(s[1], s[2]) for s in subs}, key=repr),
        'sub_enc': [s[3] for s in subs],
        'one_ctx': len({s[4] for s in subs}) <= 1,
        'file_is_loaded': all(s[5] is sentinel for s in subs),
    }
    return line, extras


def impl_run(payload):
    try:
        line, extras = run_real(tup(payload))
    except common.CaseTimeout:
        raise
    except RecursionError:
        raise
    except Exception as e:  # noqa   (the harness itself, or Checker.__init__)
        return 'crash %s: %s' % (type(e).__name__, str(e)[:200]) + SEP + 'null'
    return line + SEP + json.dumps(extras)


# ---------------------------------------------------------------- model side
def lr_tokens(res):
    k = res[0]
    if k == 'file':
        return 'file s 0 s'
    if k == 'dec':
        return 'dec %s %d %s' % (common.enc_bytes(bytes(res[1])), res[2], common.enc_str(res[3]))
    if k == 'mosyn':
        return 'mosyn %s 0 s' % common.enc_str(res[1])
    if k == 'errno':
        return 'errno %s 0 s' % common.enc_str(res[2])
    if k == 'noerrno':
        return 'noerrno %s 0 s' % common.enc_str(noerrno_message(res))
    if k == 'other':
        return 'other %s 0 s' % common.enc_str(res[1])
    raise AssertionError(k)


def model_line(payload):
    stat, ft, path, fake_root, first, retry = payload
    st = {'ok': 'ok s', 'oserr': None, 'other': None}[stat[0]]
    if stat[0] == 'oserr':
        st = 'oserr ' + common.enc_str(stat[2])
    elif stat[0] == 'other':
        st = 'other ' + common.enc_str(stat[1])
    return 'checktop %s %s %s %s %s' % (st, '-' if ft is None else common.enc_str(ft), common.enc_str(path), lr_tokens(first), lr_tokens(retry))


# ---------------------------------------------------------------- the oracle (no model involved)
def ref_po_args(path, msg):
    """the arguments of syntax-error-in-po-file for polib's message, from the documented behaviour: the fixed prefix is dropped;
    '<path> ' is dropped when the rest starts with it; '(line N)' with ASCII digits, optionally followed by ': text' (one line),
    gives safestr 'line N' / 'line N:' and the text, which is a safestr only when it is lower-case ASCII words separated by
    single spaces; anything else is passed whole as a plain str"""
    m = msg[len(P):]
    if m[:len(path) + 1] == path + ' ':
        m = m[len(path) + 1:]
    whole = [('str', m)]
    if not m.startswith('(line '):
        return whole
    close = m.find(')')
    num = m[6:close] if close >= 0 else ''
    if not num or any(c not in '0123456789' for c in num):
        return whole
    rest = m[close + 1:]
    if rest == '':
        return [('safe', 'line ' + num)]
    if not rest.startswith(': ') or len(rest) == 2 or '\n' in rest:
        return whole
    text = rest[2:]
    words = text.split(' ')
    lower = all(w != '' and all('a' <= c <= 'z' for c in w) for w in words)
    return [('safe', 'line ' + num + ':'), ('safe' if lower else 'str', text)]


def fmt_arg(kind, val):
    return kind + ':' + (common.enc_bytes(val) if kind == 'bytes' else common.enc_str(val))


def oracle(payload, x):
    """x = extras of run_real.  Returns a list of (kind, what)."""
    stat, ft, path, fake_root, first, retry = payload
    bad = []
    tags = x['tags']
    names = [t for t, _ in tags]
    if x['stat_calls'] != [path]:
        bad.append(('glue-stat', 'os.stat called with %r, the path is %r' % (x['stat_calls'], path)))
    if stat[0] != 'ok':
        if x['ncalls'] or x['subs']:
            bad.append(('glue-stat', 'os.stat failed but the loader / the sub-checks ran'))
        if stat[0] == 'oserr':
            if tags != [['os-error', [fmt_arg('safe', stat[2])]]] or x['exc'] is not None:
                bad.append(('glue-stat', 'os.stat raised OSError: expected exactly os-error <strerror> and a normal return; got %r, exception %r' % (tags, x['exc'])))
        elif x['exc'] != stat[1] or tags:
            bad.append(('glue-exception-flow', 'os.stat raised %s: expected it to propagate, got %r, tags %r' % (stat[1], x['exc'], names)))
        return bad
    ext = ('.' + ft) if ft is not None else os.path.splitext(path)[1]
    kind = {'.po': 'po', '.pot': 'po', '.mo': 'mo', '.gmo': 'mo'}.get(ext)
    if kind is None:
        # C17: what is not a catalog yields unknown-file-type and nothing else
        if tags != [['unknown-file-type', []]] or x['ncalls'] or x['subs'] or x['exc'] is not None:
            bad.append(('glue-unknown-file-type', 'extension %r: expected only unknown-file-type, no loader call, no sub-check; got tags %r, %d loader calls, sub-checks %r, exception %r'
                        % (ext, tags, x['ncalls'], x['subs'], x['exc'])))
        return bad
    want_calls = [kind] * (2 if first[0] == 'dec' else 1)
    if x['call_kinds'] != want_calls:
        bad.append(('glue-dispatch', 'extension %r: expected the constructor calls %r, got %r' % (ext, want_calls, x['call_kinds'])))
    last = retry if first[0] == 'dec' else first
    # ---- C01: what may propagate
    escapes = last[0] in ('other', 'dec') or (last[0] == 'noerrno' and not noerrno_message(last).startswith(P))
    if escapes != (x['exc'] is not None):
        bad.append(('glue-exception-flow', 'last attempt %r: %s' % (short(last), 'an exception (%s) propagates out of check()' % x['exc'] if x['exc'] else 'the exception was swallowed')))
    if x['exc'] is not None and not x['exc_is_scripted']:
        bad.append(('glue-exception-flow', 'the exception that propagates (%s) is not the one the loader raised' % x['exc']))
    # ---- broken-encoding: iff the first attempt failed to decode, once, last, with the 80-byte window
    nbe = names.count('broken-encoding')
    if nbe != (1 if first[0] == 'dec' else 0) or (nbe and names[-1] != 'broken-encoding'):
        bad.append(('glue-broken-encoding', 'first attempt %s: broken-encoding emitted %d times, tags %r' % (first[0], nbe, names)))
    elif nbe:
        obj, start = bytes(first[1]), first[2]
        want = [fmt_arg('bytes', obj[max(start - 40, 0):start + 40]), fmt_arg('safe', 'cannot be decoded as'), fmt_arg('str', first[3].upper())]
        if tags[-1][1] != want:
            bad.append(('glue-broken-encoding', 'arguments of broken-encoding: expected %r, got %r' % (want, tags[-1][1])))
    head = tags[:-1] if nbe else tags
    # ---- the handler's tag
    if last[0] == 'mosyn':
        # C09: a rejected file gets invalid-mo-file (+ broken-encoding) and nothing else
        if head != [['invalid-mo-file', [fmt_arg('safe', last[1])]]] or x['subs'] or x['exc'] is not None:
            bad.append(('glue-mo-rejection', 'the loader raised moparser.SyntaxError(%r)%s: expected exactly invalid-mo-file%s and no sub-check; got tags %r, sub-checks %r, exception %r'
                        % (last[1], ' on the retry' if first[0] == 'dec' else '', ' then broken-encoding' if first[0] == 'dec' else '', tags, x['subs'], x['exc'])))
    elif last[0] == 'errno':
        if head != [['os-error', [fmt_arg('safe', last[2])]]] or x['subs']:
            bad.append(('glue-os-error', 'the loader raised OSError(errno=%r): expected os-error <strerror>, got %r, sub-checks %r' % (last[1], tags, x['subs'])))
    elif last[0] == 'noerrno' and not escapes:
        want = [['syntax-error-in-po-file', [fmt_arg(k, v) for k, v in ref_po_args(path, noerrno_message(last))]]]
        if head != want or x['subs']:
            bad.append(('glue-po-syntax-error', 'message %r: expected %r, got %r, sub-checks %r' % (noerrno_message(last), want, head, x['subs'])))
    elif last[0] == 'file':
        if head:
            bad.append(('glue-loaded', 'the file was loaded: unexpected tags %r' % (head,)))
        if x['subs'] != SUBCHECKS or not x['one_ctx'] or not x['file_is_loaded']:
            bad.append(('glue-subchecks', 'expected the nine sub-checks in the fixed order on one ctx holding the loaded file, got %r' % (x['subs'],)))
        else:
            flags = [[ext == '.pot', ext in ('.mo', '.gmo')]]
            if [list(f) for f in x['sub_flags']] != flags:
                bad.append(('glue-ctx', 'extension %r: expected (is_template, is_binary) = %r, the sub-checks saw %r' % (ext, flags, x['sub_flags'])))
            after = 'none' if first[0] == 'dec' else 'set'
            if x['sub_enc'] != ['unset'] * 5 + [after] * 4:
                bad.append(('glue-ctx', 'ctx.encoding seen by the sub-checks: %r (expected unset up to check_mime, then %r)' % (x['sub_enc'], after)))
    else:
        if head or x['subs']:
            bad.append(('glue-exception-flow', 'the loader raised %r: unexpected tags %r / sub-checks %r' % (short(last), head, x['subs'])))
    return bad


def short(res):
    if res[0] == 'dec':
        return ('dec', 'len=%d' % len(res[1]), res[2], res[3])
    return res


def replay_case(payload):
    payload = tup(payload)
    r = impl_run(payload)
    line, _, ex = r.partition(SEP)
    x = json.loads(ex) if ex else None
    if x is None:
        return line
    bad = oracle(payload, x)
    return '; '.join(w for _, w in bad) if bad else None


# ---------------------------------------------------------------- inputs
PATHS = [('a.po', None), ('a.pot', None), ('a.mo', None), ('a.gmo', None), ('a.txt', None), ('a', None), ('.po', None), ('a.po.bak', None),
         ('dir.po/a', None), ('a.PO', None), ('a.po ', None), ('ą.po', None), ('r/a.po', ('r/', 'f/')), ('r/x.mo', ('r/', 'f/')),
         ('..po', None), ('a..po', None), ('a.b/.mo', None), ('x/...gmo', None), ('a.pot.', None), ('', None), ('d/', None), ('.a.gmo', None),
         ('a.mo/', None), ('a b.pot', None), ('/abs/LC_MESSAGES/x.mo', None)]
FILE_TYPES = [None, 'po', 'pot', 'mo', 'gmo']
ODD_FILE_TYPES = ['', 'PO', 'txt', 'po ', '.po', 'pö']


def pattern(n):
    return tuple((i * 7 + 3) % 256 for i in range(n))


def dec_results(full):
    out = []
    lens = range(0, 101) if full else [0, 1, 39, 40, 41, 79, 80, 81, 100]
    for n in lens:
        starts = {0, 1, 39, 40, 41, 42, n - 41, n - 40, n - 1, n, n + 5, n // 2, -1, -39, -40, -41, -n, -n - 1, 200}
        for s in sorted(starts):
            if not full and s < 0 and n not in (0, 41, 100):
                continue
            out.append(('dec', pattern(n), s, ['utf-8', 'ascii', 'UTF-8', 'euc_jp', 'x-Mac', ''][(n + s) % 6]))
    return out


def messages(path):
    p = path
    return [P + p + ' (line 5): unescaped double quote found', P + p + ' (line 5)', P + p + ' (line ٣)',
            P + 'other.po (line 5): unescaped double quote found', P + 'other.po (line 5)', P + p + ' (line 5): unescaped double quote found\n',
            P + p + ' (line 5)\n', P + p + ' (line 5): Unescaped double quote found', P, 'foo', P + '(line 7): invalid continuation line',
            P + p + '(line 5)', P + p + ' (line 12): unknown keyword msgfoo', P + p + ' (line 12): unknown keyword "x"', P + p + ' (line 5): a  b',
            P + p + ' (line 5): ', P + p + ' (line 5):', P + p + ' (line ): x', P + p + ' (line 05): x y', P + p + ' (line 5): a\rb',
            P + p + ' (line 5): a\nb', P + p + ' ', P + p, P.lower() + p + ' (line 5)', P[:-1], '', P + p + ' ' + p + ' (line 5)',
            P + p + ' (line 5): ünknown', P + p + ' (line 5) : x', P + p + '  (line 5)', P + p + ' (line 5): x ', P + p + ' (line 5):  x',
            P + p + ' (line 5x)', P + p + ' (line 5)) ', P + p + ' (Line 5)', P + p + ' (line 123456789012345678901234567890): z',
            P + p + ' (line 5): x\x1b[31m', P + 'f/a.po (line 5)', P + p + ' (line ５)', 'x' + P + p + ' (line 5)']


def load_results(path, full):
    """(non-decode outcomes, decode outcomes)"""
    plain = [('file',), ('mosyn', 'unexpected magic'), ('mosyn', 'unexpected major revision number: 7'), ('mosyn', ''), ('mosyn', 'x\ny €'),
             ('errno', 2, 'No such file or directory'), ('errno', 13, 'Permission denied'), ('errno', 0, ''), ('errno', 21, 'Jest katalogiem'),
             ('other', 'UnicodeError'), ('other', 'ValueError'), ('other', 'KeyError'), ('other', 'error'), ('other', 'UnicodeEncodeError'),
             ('noerrno', (None, 'b'))]
    plain += [('noerrno', (m,)) for m in messages(path)]
    return plain, dec_results(full)


def gen_cases(ctx, only_mo=False):
    """the product described in notes/GLUE.md; returns {payload: stream name}"""
    cases = {}
    full = not ctx.quick()
    paths = PATHS if not only_mo else [p for p in PATHS if p[0].endswith(('.mo', '.gmo', 'a.txt'))]
    fts = FILE_TYPES if not only_mo else [None, 'mo', 'gmo']
    for path, fr in paths:
        plain, decs = load_results(path, full)
        if only_mo:
            plain = [r for r in plain if r[0] in ('file', 'mosyn') or r == ('other', 'UnicodeError')]
        few_decs = [d for d in decs if len(d[1]) in (0, 41, 100) and d[2] in (0, 40, 41, 99, 105, -1)]
        for ft in fts + (ODD_FILE_TYPES if path in ('a.po', 'a') and not only_mo else []):
            # os.stat fails: nothing else is consulted
            for st in [('oserr', 2, 'No such file or directory'), ('oserr', 20, 'Not a directory'), ('oserr', 36, 'File name too long …'), ('other', 'ValueError')]:
                cases.setdefault((st, ft, path, fr, ('file',), ('file',)), 'stat-fails')
            ok = ('ok',)
            # first attempt does not fail to decode: the retry outcome must not matter (two of them, to see a second call)
            for a in plain:
                for b in (('file',), ('mosyn', 'retry'), ('other', 'KeyError')):
                    cases.setdefault((ok, ft, path, fr, a, b), 'first:' + a[0])
            # first attempt fails to decode: every retry outcome
            for a in (few_decs if ft is None or full else few_decs[::3]):
                for b in plain + few_decs[::4]:
                    cases.setdefault((ok, ft, path, fr, a, b), 'retry:' + b[0])
        # the window of broken-encoding: every length / start position, with the retries that keep going or stop
        if path in ('a.po', 'a.mo'):
            for a in decs:
                for b in (('file',), ('mosyn', 'unexpected magic'), ('noerrno', ('foo',))):
                    cases.setdefault((('ok',), None, path, fr, a, b), 'window')
    return cases


def run_stream(ctx, prefix='glue', only_mo=False):
    """compare model and implementation on the product, apply the oracle; everything is recorded in ctx"""
    cases = gen_cases(ctx, only_mo)
    req = [(model_line(p), p) for p in cases]
    res = common.compare_parallel('harness.glue_lib', 'impl_run', req, per_case_timeout=20)
    ctx.evaluations += len(res)
    for (line, payload, m, r) in res:
        stream = cases[payload]
        ctx.count(prefix + ':' + stream)
        impl, _, ex = (r or '').partition(SEP)
        info = {'stat': payload[0], 'file_type': payload[1], 'path': payload[2], 'fake_root': payload[3],
                'first_attempt': short(payload[4]), 'retry': short(payload[5]), 'stream': stream}
        if impl != m:
            ctx.disagree('checktop', info, m[:600], impl[:600])
        x = json.loads(ex) if ex and ex != 'null' else None
        if x is None:
            ctx.fail('glue-harness', info, 'the scripted run did not complete: %s' % impl[:300], replay=('harness.glue_lib', 'replay_case', payload))
            continue
        ctx.nontriv(('glue', m))
        for kind, what in oracle(payload, x):
            ctx.count(prefix + '-oracle:' + kind)
            ctx.fail(kind, info, what, replay=('harness.glue_lib', 'replay_case', payload))
    return len(res)

"""C19: locale names are parsed, normalised and compared consistently."""
import itertools
import os
import unicodedata

import common
from common import enc_str

TRUSTED = [
    'Coq 8.16.1 kernel (coqc, vm_compute); coqchk in thorough tier',
    'axioms: none (Print Assumptions must report "Closed under the global context" for every theorem of Props/C19.v)',
    'Spec/Locale.v: the grammar ll[_CC][.encoding][@modifier] and the reading of the property text (sources of a language, normalised locale)',
    'hand-written Gallina model Model/Ling.v of lib/ling.py, the -l handling of lib/cli.py and Checker.check_language',
    'Generated/IsoCodes.v (ling._iso_639, ling._iso_3166, ling._name_to_code and the raw [language-codes] section), regenerated from /repo on every run',
    'tools/gen/gen_ling_src.py + Model/LingPy.v: the fail-closed translator python ast -> Gallina of lib/ling.py (class Language, lookups, parse_language, get_language_for_name) and Checker.check_language (Generated/LingSrc.v, regenerated on every run; rules in its docstring), proved equal to the model (C19_source_tie_*)',
    'extraction (ExtrOcamlBasic only) + ocaml/driver.ml',
    'the `re` engine is modelled (a greedy scanner for _language_regexp), not verified',
    'oracle, not modelled: _munch_language_name (str.split, str.lower, NFD, ASCII folding): the harness passes its value for every looked-up string',
    'posixpath.normpath / basename are modelled and tied on enumerated paths',
    'correspondence: Checker.check_language called in-process on a constructed context; tag arguments are rendered at tag() time as the CLI does',
]
ASSUME = ['paths contain no NUL character',
          'the -l language reaches the checker as cli.main() prepares it (parse, fix_codes, remove_encoding, remove_nonlinguistic_modifier)']

# the text of ling._language_regexp the scanner of Model/Ling.v was written against
PATTERN = """
^       ( [a-z]{2,} )
(?:  _  ( [A-Z]{2,} ) )?
(?: [.] ( [a-zA-Z0-9+-]+ ) )?
(?:  @  ( [a-z]+) )?
\\Z"""

ALPHA = ['a', 'b', 'A', 'B', '_', '.', '@', '1', '-', '\n', 'é']
LOWER = 'abcdefghijklmnopqrstuvwxyz'
UPPER = LOWER.upper()
ENCCH = LOWER + UPPER + '0123456789+-'


# ------------------------------------------------------------------ reference (property text), no `re`, no lib.ling parser
def ref_locale(s):
    """(ll, cc, enc, mod) if s is a locale name ll[_CC][.encoding][@modifier], else None."""
    rest, mod, enc, cc = s, None, None, None
    if '@' in rest:
        rest, mod = rest.split('@', 1)
    if '.' in rest:
        rest, enc = rest.split('.', 1)
    if '_' in rest:
        rest, cc = rest.split('_', 1)
    ll = rest
    if len(ll) < 2 or any(c not in LOWER for c in ll):
        return None
    if cc is not None and (len(cc) < 2 or any(c not in UPPER for c in cc)):
        return None
    if enc is not None and (len(enc) < 1 or any(c not in ENCCH for c in enc)):
        return None
    if mod is not None and (len(mod) < 1 or any(c not in LOWER for c in mod)):
        return None
    return (ll, cc, enc, mod)


def ref_print(parts, upcase=True):
    ll, cc, enc, mod = parts
    s = ll
    if cc is not None:
        s += '_' + cc
    if enc is not None:
        s += '.' + (enc.upper() if upcase else enc)
    if mod is not None:
        s += '@' + mod
    return s


_raw = {}


def raw_iso():
    """data/iso-codes read by hand (not through lib.ling): ({lll: ll or ''}, {CC})"""
    if 'v' in _raw:
        return _raw['v']
    langs, terrs, sect = {}, set(), None
    for line in open(os.path.join(common.REPO, 'data', 'iso-codes'), encoding='UTF-8'):
        line = line.strip()
        if not line or line.startswith('#'):
            continue
        if line.startswith('['):
            sect = line.strip('[]')
            continue
        k, _, v = line.partition('=')
        k, v = k.strip(), v.strip()
        if sect == 'language-codes':
            langs[k.lower()] = v
        elif sect == 'territory-codes':
            terrs.add(k.upper())
    _raw['v'] = (langs, terrs)
    return _raw['v']


def ref_canonical_language(ll):
    """canonical code of ll per the raw ISO 639 table, or None if unknown"""
    langs, _ = raw_iso()
    if ll in langs:
        return langs[ll] or ll
    if ll in set(v for v in langs.values() if v):
        return ll
    return None


def ref_normalise(s):
    """the locale named by s after code normalisation, without encoding and non-linguistic modifier:
    (ll, cc, None, mod) or None"""
    parts = ref_locale(s)
    if parts is None:
        return None
    ll, cc, enc, mod = parts
    ll2 = ref_canonical_language(ll)
    if ll2 is None:
        return None
    if cc is not None and cc not in raw_iso()[1]:
        return None
    return (ll2, cc, None, None if mod == 'euro' else mod)


# ------------------------------------------------------------------ canonical result strings
def opt_s(x):
    return '-' if x is None else enc_str(x)


def lang_s(l):
    return 'll=%s cc=%s enc=%s mod=%s str=%s' % (enc_str(l.language_code), opt_s(l.territory_code), opt_s(l.encoding),
                                               opt_s(l.modifier), enc_str(str(l)))


def impl_parse(s):
    from lib import ling
    try:
        l = ling.parse_language(s)
    except ling.LanguageSyntaxError:
        return 'err syntax'
    except ling.LanguageError:
        return 'err other'
    except Exception as e:  # noqa
        return 'crash ' + type(e).__name__
    return 'ok ' + lang_s(l)


_reZ = {}


def impl_parse_z(s):
    """the same regular expression with \\Z in place of $ (the variant the unguarded theorems are about)"""
    import re
    from lib import ling
    if 'r' not in _reZ:
        pat = ling._language_regexp.pattern
        body = pat.rstrip()
        if not (body.endswith('$') or body.endswith('\\Z')):
            raise ValueError('unexpected end of _language_regexp')
        if body.endswith('$'):
            body = body[:-1] + '\\Z'
        _reZ['r'] = re.compile(body, ling._language_regexp.flags)
    m = _reZ['r'].match(s)
    if m is None:
        return 'err syntax'
    return 'ok ' + lang_s(ling.Language(*m.groups()))


def _fix_once(l):
    from lib import ling
    try:
        r = l.fix_codes()
    except ling.FixingLanguageCodesFailed:
        return 'err fix'
    except ling.LanguageError:
        return 'err other'
    except Exception as e:  # noqa
        return 'crash ' + type(e).__name__
    if r not in (None, True):
        return 'bad-return %r' % (r,)
    return 'ok ' + lang_s(l) + (' changed' if r else ' same')


def impl_fix(s):
    from lib import ling
    try:
        l = ling.parse_language(s)
    except ling.LanguageSyntaxError:
        return 'err syntax'
    r = _fix_once(l)
    if not r.startswith('ok'):
        return r
    return r + ' again: ' + _fix_once(l)


def main_language(opt):
    """run the REAL cli.main() with --language=opt and a stubbed check_all: ('ok', options.language) | ('err', exit status) | ('crash', name)"""
    import io
    import sys
    from lib import cli
    cap = {}

    def fake_check_all(files, *, options):
        cap['language'] = options.language
    saved = (cli.check_all, cli.Checker.patch_environment, sys.argv, sys.stderr, sys.stdout)
    cli.check_all = fake_check_all
    cli.Checker.patch_environment = staticmethod(lambda: None)
    sys.argv = ['i18nspector', '--language=' + opt, 'x.po']
    sys.stderr = io.StringIO()
    sys.stdout = io.StringIO()
    try:
        try:
            cli.main()
        except SystemExit as e:
            return ('err', e.code)
        except UnicodeEncodeError:
            raise
        except Exception as e:  # noqa
            return ('crash', type(e).__name__)
        return ('ok', cap.get('language'))
    finally:
        cli.check_all, cli.Checker.patch_environment, sys.argv, sys.stderr, sys.stdout = saved


def impl_cli(s):
    """-l through the real cli.main(); an 'invalid language' exit is refined (syntax / codes) with the two library calls main() makes"""
    from lib import ling
    r = main_language(s)
    if r[0] == 'crash':
        return 'crash ' + r[1]
    try:
        language = ling.parse_language(s)
        language.fix_codes()
        direct = 'ok'
    except ling.LanguageSyntaxError:
        direct = 'err syntax'
    except ling.LanguageError:
        direct = 'err fix'
    except Exception as e:  # noqa
        direct = 'crash ' + type(e).__name__
    if r[0] == 'err':
        if direct == 'ok' or r[1] != 2:
            return 'main exits %r although parse_language/fix_codes say %s' % (r[1], direct)
        return direct
    if direct != 'ok' or r[1] is None:
        return 'main accepts although parse_language/fix_codes say %s' % direct
    return 'ok ' + lang_s(r[1])


def munch(s):
    from lib import ling
    return ling._munch_language_name(s)


def impl_name(name):
    from lib import ling
    try:
        l = ling.get_language_for_name(name)
    except LookupError:
        return 'err lookup'
    except Exception as e:  # noqa
        return 'crash ' + type(e).__name__
    return 'ok ' + lang_s(l)


def impl_path(p):
    """the path expressions of check_language"""
    comps = os.path.normpath(p).split('/')
    try:
        i = comps.index('LC_MESSAGES')
    except ValueError:
        i = 0
    r = 'dir=' + (enc_str(comps[i - 1]) if i > 0 else '-')
    if p.endswith('.po'):
        r += ' po root=%s' % enc_str(os.path.basename(p)[:-3])
    else:
        r += ' notpo'
    return r


SRC = {'(command-line)': 'command-line', '(pathname)': 'pathname', '(Language header field)': 'field',
       '(X-Poedit-Language header field)': 'poedit'}


def canon_tag(name, extra):
    """extra: tuple of ('L', str) | ('S', str) | ('s', str) rendered at tag() time"""
    kinds = ''.join(k for k, _ in extra)
    vals = [v for _, v in extra]
    if name == 'duplicate-header-field-language' and kinds == '':
        return 'dup-language'
    if name == 'no-language-header-field' and kinds == '':
        return 'no-language-field'
    if name == 'no-language-header-field' and kinds == 'SL' and vals[0] == 'Language:':
        return 'no-language-field ' + enc_str(vals[1])
    if name == 'invalid-language' and kinds == 's':
        return 'invalid-language ' + enc_str(vals[0])
    if name == 'invalid-language' and kinds == 'ssL' and vals[1] == '=>':
        return 'invalid-language %s => %s' % (enc_str(vals[0]), enc_str(vals[2]))
    if name == 'encoding-in-language-header-field' and kinds == 's':
        return 'encoding-in-field ' + enc_str(vals[0])
    if name == 'language-variant-does-not-affect-translation' and kinds == 's':
        return 'variant-no-effect ' + enc_str(vals[0])
    if name == 'language-disparity' and kinds == 'LSsLS' and vals[2] == '!=' and vals[1] in SRC and vals[4] in SRC:
        return 'disparity %s %s %s %s' % (enc_str(vals[0]), SRC[vals[1]], enc_str(vals[3]), SRC[vals[4]])
    if name == 'duplicate-header-field-x-poedit' and kinds == 's' and vals[0] in ('X-Poedit-Language', 'X-Poedit-Country'):
        return 'dup-poedit ' + ('language' if vals[0] == 'X-Poedit-Language' else 'country')
    if name == 'unknown-poedit-language' and kinds == 's':
        return 'unknown-poedit ' + enc_str(vals[0])
    if name == 'unable-to-determine-language' and kinds == '':
        return 'unable'
    return 'other:%s:%s' % (name, kinds)


_cls = {}


def snapshot_checker():
    if 'c' in _cls:
        return _cls['c']
    from harness import impl_checker as IC
    from lib import ling, tags
    base = IC.get_checker_class()

    class SnapshotChecker(base):
        def tag(self, tagname, *extra):
            snap = []
            for e in extra:
                if isinstance(e, ling.Language):
                    snap.append(('L', str(e)))
                elif isinstance(e, tags.safestr):
                    snap.append(('S', str(e)))
                elif isinstance(e, str):
                    snap.append(('s', e))
                else:
                    snap.append(('?', repr(e)))
            if not tags.tag_exists(tagname):
                tagname = '<UNKNOWN-TAG>' + tagname
            self.recorded.append((tagname, tuple(snap)))
    _cls['c'] = SnapshotChecker
    return SnapshotChecker


def make_opt_language(opt):
    """what the real cli.main() stores in options.language for -l opt"""
    if opt is None:
        return None
    r = main_language(opt)
    if r[0] != 'ok':
        raise ValueError('cli.main() rejects -l %r: %r' % (opt, r))
    return r[1]


def run_check(payload):
    """-> (list of canonical tags, ctx.language or None)"""
    opt, path, metas, pls, pcs, template = payload
    from harness import impl_checker as IC
    cls = snapshot_checker()
    chk = cls(path, options=IC.make_options(language=make_opt_language(opt)))
    ctx = IC.new_ctx(is_template=template)
    if metas:
        ctx.metadata['Language'] = list(metas)
    if pls:
        ctx.metadata['X-Poedit-Language'] = list(pls)
    if pcs:
        ctx.metadata['X-Poedit-Country'] = list(pcs)
    chk.check_language(ctx)
    return [canon_tag(n, e) for n, e in chk.recorded], ctx.language


def impl_check(payload):
    try:
        tags_, lang = run_check(payload)
    except Exception as e:  # noqa
        return 'crash ' + type(e).__name__
    return ' | '.join(tags_) + ' || ' + ('none' if lang is None else lang_s(lang))


def line_check(payload):
    opt, path, metas, pls, pcs, template = payload
    parts = ['lcheck', '1' if template else '0']
    if opt is None:
        parts += ['0', 's', '-', '-', '-']
    else:
        l = make_opt_language(opt)
        parts += ['1', enc_str(l.language_code), opt_s(l.territory_code), opt_s(l.encoding), opt_s(l.modifier)]
    parts.append(enc_str(path))
    for lst in (metas, pls, pcs):
        parts.append(str(len(lst)))
        parts += [enc_str(x) for x in lst]
    names = sorted(set(metas) | set(pls))
    parts.append(str(len(names)))
    for n in names:
        parts += [enc_str(n), enc_str(munch(n))]
    return ' '.join(parts)


# ------------------------------------------------------------------ oracles (the property itself, on the implementation)
def oracle_parse_batch(strings):
    """round trip and rejection, judged by the reference grammar; fix_codes laws on the real functions"""
    from lib import ling
    out = []
    for s in strings:
        parts = ref_locale(s)
        try:
            l = ling.parse_language(s)
        except ling.LanguageSyntaxError:
            l = None
        except Exception as e:  # noqa
            out.append(('parse-crash', s, 'parse_language raised ' + type(e).__name__, None))
            continue
        if l is None:
            if parts is not None:
                out.append(('reject', s, 'a locale name is rejected', None))
            continue
        printed = str(l)
        if parts is None:
            out.append(('roundtrip', s, 'not a locale name, but parse_language accepts it and prints it back as %r' % printed, None))
            continue
        if printed != ref_print(parts):
            out.append(('roundtrip', s, 'prints back as %r, expected %r' % (printed, ref_print(parts)), None))
            continue
        if (l.language_code, l.territory_code, l.encoding, l.modifier) != (parts[0], parts[1], None if parts[2] is None else parts[2].upper(), parts[3]):
            out.append(('roundtrip', s, 'fields differ from the parts of the name', None))
            continue
        w = oracle_fix(l, parts)
        if w:
            out.append(('fix', s, w, None))
    return out


def oracle_fix(l, parts):
    """l = parse(s) (consumed), parts = reference parts of s"""
    from lib import ling
    ll, cc, enc, mod = parts
    want_ll = ref_canonical_language(ll)
    want_ok = want_ll is not None and (cc is None or cc in raw_iso()[1])
    before = (l.language_code, l.territory_code, l.encoding, l.modifier)
    try:
        r = l.fix_codes()
    except ling.LanguageError:
        if want_ok:
            return 'fix_codes rejects known codes'
        if (l.language_code, l.territory_code, l.encoding, l.modifier) != before:
            return 'fix_codes failed and changed the object'
        return None
    except Exception as e:  # noqa
        return 'fix_codes raised ' + type(e).__name__
    if not want_ok:
        return 'fix_codes accepts an unknown language or territory code'
    after = (l.language_code, l.territory_code, l.encoding, l.modifier)
    if after != (want_ll, before[1], before[2], before[3]):
        return 'fix_codes gives %r, expected language %r and nothing else changed' % (after, want_ll)
    if bool(r) != (want_ll != ll):
        return 'fix_codes returns %r but the language code %s' % (r, 'changed' if want_ll != ll else 'did not change')
    try:
        r2 = l.fix_codes()
    except Exception as e:  # noqa
        return 'second fix_codes raised ' + type(e).__name__
    if r2 or (l.language_code, l.territory_code, l.encoding, l.modifier) != after:
        return 'fix_codes is not idempotent'
    return None


def oracle_name_batch(items):
    """items: (name variant, expected section of data/languages).  Case, spacing and accents do not matter."""
    from lib import ling
    out = []
    for name, code in items:
        if code.startswith('!ambiguous'):
            try:
                l = ling.get_language_for_name(name)
            except LookupError:
                continue
            except Exception as e:  # noqa
                out.append(('name', name, 'get_language_for_name raised ' + type(e).__name__, None))
                continue
            out.append(('name', name, 'a list naming two different languages (%s) is resolved to %s: a guess, no name identifies the language' % (code[11:], l), None))
            continue
        try:
            l = ling.get_language_for_name(name)
        except LookupError:
            out.append(('name', name, 'a registered language name (modulo case, spacing, accents) is not found; expected ' + code, None))
            continue
        except Exception as e:  # noqa
            out.append(('name', name, 'get_language_for_name raised ' + type(e).__name__, None))
            continue
        if str(l) != code:
            out.append(('name', name, 'resolves to %s, expected %s' % (l, code), None))
    return out


def ref_verdict(payload):
    """What the property text says about the case: dict with
       disparity: None | (str(ext), source, str(field));  invalid: None | (orig, set of corrections);
       unable: bool;  language: str | None.
    Locale grammar and ISO tables are the reference ones; language names are resolved by the real
    get_language_for_name (its own oracle is the name stream)."""
    from lib import ling
    opt, path, metas, pls, pcs, template = payload
    if template:
        return None

    def show(t):
        return None if t is None else ref_print(t)
    ext, src, from_base = None, None, False
    if opt is not None:
        ext, src = ref_normalise(opt), 'command-line'
    else:
        comps = os.path.normpath(path).split('/')
        if 'LC_MESSAGES' in comps and comps.index('LC_MESSAGES') > 0:
            ext = ref_normalise(comps[comps.index('LC_MESSAGES') - 1])
        if ext is not None:
            src = 'pathname'
        elif path.endswith('.po'):
            stem = path.rsplit('/', 1)[-1][:-3]
            p = ref_locale(stem)
            if p is not None and p[2] is None:
                ext = ref_normalise(stem)
            if ext is not None:
                src, from_base = 'pathname', True
    distinct = sorted(set(metas))
    v = distinct[0] if len(distinct) == 1 else None
    field, invalid, looked_at = None, None, False
    if v:
        p = ref_locale(v)
        if p is not None:
            looked_at = True
            field = ref_normalise(v)
            if field is None:
                invalid = (v, set())
            elif field[0] != p[0]:
                invalid = (v, {show(field)})
        else:
            try:
                named = ling.get_language_for_name(v)
            except LookupError:
                named = None
            if named is None:
                invalid = (v, set())
            else:
                looked_at = True
                invalid = (v, {str(named)})
                field = ref_normalise(str(named))
    if from_base and looked_at and field is not None:
        f = show(field)
        if '/%s/' % f in path or ('/%s/' % f).replace('_', '-') in path:
            ext = None     # the base name does not designate the language (LibreOffice layout)
    disparity = None
    if ext is not None and field is not None and ext != field:
        disparity = (show(ext), src, show(field))
    cur = ext if ext is not None else field
    poedit = None
    if len(set(pls)) == 1 and len(set(pcs)) <= 1:
        try:
            poedit = ling.get_language_for_name(sorted(set(pls))[0])
        except LookupError:
            poedit = None
    language = show(cur)
    if cur is None and poedit is not None:
        language = str(poedit)
    # X-Poedit-Language names a language only: it disagrees with the language in force iff the LANGUAGE CODES differ
    # (territory, encoding and modifier of the locale do not matter)
    poedit_disparity = False
    if cur is not None and poedit is not None:
        code = show(cur).split('.')[0].split('@')[0].split('_')[0]
        poedit_disparity = code != str(poedit).split('.')[0].split('@')[0].split('_')[0]
    return {'disparity': disparity, 'invalid': invalid, 'unable': language is None, 'language': language, 'poedit_disparity': poedit_disparity}


def observed_verdict(tags_, lang):
    disparity, invalid, unable, poedit_disparity = None, None, False, False
    for t in tags_:
        w = t.split(' ')
        if w[0] == 'disparity' and w[4] == 'field':
            disparity = (common.dec_str(w[1]), w[2], common.dec_str(w[3]))
        elif w[0] == 'disparity' and 'poedit' in (w[2], w[4]):
            poedit_disparity = True
        elif w[0] == 'invalid-language':
            orig = common.dec_str(w[1])
            if invalid is None:
                invalid = (orig, set())
            if len(w) == 4:
                invalid[1].add(common.dec_str(w[3]))
        elif w[0] == 'unable':
            unable = True
    return {'disparity': disparity, 'invalid': invalid, 'unable': unable, 'language': None if lang is None else str(lang), 'poedit_disparity': poedit_disparity}


def oracle_check_batch(payloads):
    out = []
    for payload in payloads:
        try:
            tags_, lang = run_check(payload)
        except Exception as e:  # noqa
            out.append(('check-crash', payload, 'check_language raised ' + type(e).__name__, None))
            continue
        bad = [t for t in tags_ if t.startswith('other:')]
        if bad:
            out.append(('tag-shape', payload, 'unexpected tag or arguments: %s' % bad, None))
            continue
        want = ref_verdict(payload)
        if want is None:      # template: only the field-presence tags may appear
            if lang is not None or any(t.split(' ')[0] not in ('dup-language', 'no-language-field') for t in tags_):
                out.append(('template', payload, 'a template gets language diagnostics: %s' % tags_, None))
            continue
        got = observed_verdict(tags_, lang)
        if got == want:
            continue
        diff = ', '.join('%s: observed %r, reference %r' % (k, got[k], want[k]) for k in want if got[k] != want[k])
        out.append(('verdict', payload, diff, None))
    return out


# ------------------------------------------------------------------ generators
def ss_strings(maxlen):
    for k in range(0, maxlen + 1):
        for t in itertools.product(ALPHA, repeat=k):
            yield ''.join(t)


def locale_strings(ctx):
    """structured locale names and near-misses"""
    out = set()
    lls = ['pl', 'de', 'pol', 'deu', 'ger', 'ang', 'xx', 'xyz', 'p', 'plpl', 'PL', 'pL', 'sr', 'ca', 'pt', 'zh', 'en', 'tlh', 'qaa', 'mis']
    ccs = [None, 'PL', 'DE', 'BR', 'XX', 'P', 'POL', 'pl', 'Pl', 'ZZ', 'GB', 'US']
    encs = [None, 'UTF-8', 'utf-8', 'ISO-8859-2', 'iso8859+2', '', 'UTF_8', 'utf8', 'é', 'UTF 8']
    mods = [None, 'euro', 'latin', 'valencia', 'EURO', '', 'eur0', 'euro@x', 'cyrillic']
    for ll in lls:
        for cc in ccs:
            for enc in encs:
                for mod in mods:
                    s = ll + ('' if cc is None else '_' + cc) + ('' if enc is None else '.' + enc) + ('' if mod is None else '@' + mod)
                    out.add(s)
    base = sorted(out)
    rng = ctx.rng
    n = 2000 if ctx.quick() else 40000
    for _ in range(n):
        s = rng.choice(base)
        r = rng.random()
        if r < 0.3:
            s = s + rng.choice(['\n', '\n\n', ' ', '\r', '\r\n', '\x0b', '\x0c', '\x1c', '\x85', ' ', '\x00'])
        elif r < 0.5:
            s = rng.choice(['\n', ' ', '^', '﻿']) + s
        elif r < 0.8 and s:
            i = rng.randrange(len(s))
            s = s[:i] + rng.choice(['\n', '_', '.', '@', 'é', 'ß', 'İ', 'ı', 'Z', 'z', '0', '٣', '-', '+', 'K', 'ſ']) + s[i + rng.randrange(2):]
        out.add(s)
    return sorted(out)


def iso_strings():
    from lib import ling
    out = set()
    for k in ling._iso_639:
        out.add(k)
        out.add(k + '_PL')
        out.add(k + '.UTF-8@euro')
    for a in LOWER:
        for b in LOWER:
            out.add(a + b)
            for c in LOWER:
                out.add(a + b + c)
    for a in UPPER:
        for b in UPPER:
            out.add('pl_' + a + b)
            out.add('deu_' + a + b)
    for cc in ling._iso_3166:
        out.add('en_' + cc)
        out.add('xx_' + cc)
        out.add('ger_' + cc + '@euro')
        out.add('en_' + cc.lower())
        out.add('en_' + cc + 'X')
    return sorted(out)


def accent(s, k):
    """add accents / compatibility look-alikes that NFD + ASCII folding removes"""
    comb = ['́', '̈', '̧', '̂']
    out = []
    for i, c in enumerate(s):
        out.append(c)
        if c.isalpha() and (i + k) % 3 == 0:
            out.append(comb[(i + k) % len(comb)])
    return unicodedata.normalize('NFC', ''.join(out))


def name_cases(ctx):
    """(name, expected code or None, origin)"""
    from lib import ling
    rng = ctx.rng
    raw = []
    for code in sorted(ling._primary_languages):
        for name in ling._primary_languages[code]['names'].splitlines():
            name = name.strip()
            if name:
                raw.append((name, code))
    out = []
    for name, code in raw:
        out.append((name, code, 'registered'))
        out.append((name.upper(), code, 'upper'))
        out.append((name.lower(), code, 'lower'))
        out.append(('  ' + name.replace(' ', ' \t ') + '\n', code, 'spaces'))
        out.append((name.replace(' ', ' '), code, 'nbsp'))
        for k in range(3):
            out.append((accent(name, k), code, 'accents'))
        out.append((name + 'x', None, 'suffix'))
        out.append((name[:-1], None, 'truncated'))
        out.append((name.replace(' ', ''), None, 'nospace'))
        if ' ' in name:
            a, b = name.split(' ', 1)
            out.append(('%s, %s' % (b, a), None, 'comma-reversed'))
            out.append(('%s,%s' % (b, a), None, 'comma-reversed'))
            out.append(('%s ,  %s' % (b, a), None, 'comma-reversed'))
    names = [n for n, _ in raw]
    bycode = {}
    for n, c in raw:
        bycode.setdefault(c, []).append(n)
    ncomb = 1500 if ctx.quick() else 30000
    for _ in range(ncomb):
        a, b = rng.choice(names), rng.choice(names)
        r = rng.random()
        if r < 0.15:
            c = rng.choice([c for c in bycode if len(bycode[c]) > 1] or list(bycode))
            a, b = rng.choice(bycode[c]), rng.choice(bycode[c])
        if r > 0.85:
            b = rng.choice(['Unknownish', '', ' ', 'x', 'pl', 'Elvish'])
        sep = rng.choice(['; ', ';', ' ; ', ', ', ',', ' , ', ';;', ',,', '; , ', '; '])
        s = a + sep + b
        if rng.random() < 0.2:
            s = s + rng.choice(['; ', ', ']) + rng.choice(names)
        if rng.random() < 0.2:
            s = accent(s, rng.randrange(3))
        out.append((s, None, 'combined'))
    # a comma list naming two DIFFERENT languages identifies none: the tool must not offer a correction
    rawlower = {n.lower() for n, _ in raw}
    plain = [(n, c) for n, c in raw if ',' not in n and ';' not in n]
    for _ in range(600 if ctx.quick() else 6000):
        (a, ca), (b, cb) = rng.choice(plain), rng.choice(plain)
        if ca == cb or (b + ' ' + a).lower() in rawlower or (a + ' ' + b).lower() in rawlower:
            continue
        sep = rng.choice([', ', ',', ' , '])
        out.append((a + sep + b, '!ambiguous %s=%s %s=%s' % (a, ca, b, cb), 'two-languages'))
    for s in ['', ' ', ';', ',', ';,', 'x', 'pl', 'Polish;', ';Polish', 'Polish,', ',Polish', 'Polish, Polish', 'Polish; German', 'Unknown; German',
              'German, Polish', 'English, Old', 'Old, English', 'English, Old (ca.450-1100)', 'Norwegian, Bokmål', 'Bokmål, Norwegian',
              'Norwegian Bokmål', 'Greek, Modern (1453-)', 'á', '́Polish', 'Polish́', 'Pólish', 'Pol ish', 'Pölish',
              'ＰＯＬＩＳＨ', 'Polısh', 'POLİSH', 'Straße', 'Polish\x00', 'Polish\x1f', 'Polish\x85German', 'Polish ', 'Polish , ', ' ; Polish']:
        out.append((s, None, 'special'))
    return out


def path_cases(ctx):
    toks = ['', '.', '..', 'a', 'LC_MESSAGES', 'pl', 'x.po', '.po', 'pl.po', '..po', 'LC_MESSAGES.po']
    maxc = 4 if ctx.quick() else 5
    out = []
    for k in range(1, maxc + 1):
        for t in itertools.product(toks, repeat=k):
            out.append('/'.join(t))
    out += ['', '/', '//', '///', '.', '..', 'po', '.po', 'a.po', 'a..po', '...po', 'a.b.po', '.a.po', 'x.po/', 'x.po/.', 'LC_MESSAGES', 'pl/LC_MESSAGES',
            '/LC_MESSAGES/x.po', '//LC_MESSAGES/x.po', 'pl/./LC_MESSAGES/x.po', 'pl/a/../LC_MESSAGES/x.po', 'a/../../pl/LC_MESSAGES/x.po',
            'pl/LC_MESSAGES/de/LC_MESSAGES/x.po', 'pl/lc_messages/x.po', 'pl/LC_MESSAGES.po', 'x.PO', 'x.pot', 'x.mo', 'pl\n/LC_MESSAGES/x.mo']
    return sorted(set(out))


OPTS = [None, 'pl', 'pl_PL', 'pol', 'de_DE@euro', 'pl.UTF-8', 'de', 'de_AT.ISO-8859-15@euro', 'pl_PL.UTF-8@euro', 'sr_RS.UTF-8@latin']
LANGVALS = [
    ('absent', []), ('empty', ['']), ('ll', ['pl']), ('ll-other', ['de']), ('ll_CC', ['pl_PL']), ('ll_CC-other', ['de_AT']),
    ('lll-with-2', ['pol']), ('lll-with-2-CC', ['ger_DE']), ('lll-without', ['ang']), ('unknown-code', ['xx']), ('unknown-lll', ['xyz']),
    ('unknown-territory', ['pl_XX']), ('encoding', ['pl.UTF-8']), ('encoding-lower', ['pl_PL.utf-8']), ('euro', ['de_DE@euro']),
    ('euro-pl', ['pl@euro']), ('latin', ['sr@latin']), ('name', ['Polish']), ('name-accent', ['Pólish ']), ('name-territory', ['Brazilian Portuguese']),
    ('name-other', ['German']), ('garbage', ['!!']), ('garbage-words', ['no such language']), ('dup-same', ['pl', 'pl']),
    ('dup-different', ['pl', 'de']), ('dup-different-2', ['de', 'pl', 'de']), ('dup-empty', ['', '']), ('dup-empty-pl', ['', 'pl']),
    ('newline', ['pl\n']), ('newline-other', ['de_DE\n']), ('newline-2', ['pl\n\n']), ('upper', ['PL']), ('dash', ['pt-BR']), ('None', ['None']),
    ('lll-enc-euro', ['deu_DE.ISO-8859-15@euro']),
]
POEDIT = [('absent', [], []), ('known', ['Polish'], []), ('known-other', ['German'], []), ('unknown', ['Elvish'], []),
          ('dup-same', ['Polish', 'Polish'], []), ('dup-different', ['Polish', 'German'], []), ('country', ['Polish'], ['POLAND']),
          ('countries', ['German'], ['GERMANY', 'AUSTRIA']), ('countries-same', ['German'], ['GERMANY', 'GERMANY']),
          ('known-variant', ['Brazilian Portuguese'], []), ('empty', [''], [])]
# a Language with a non-principal territory or a linguistic modifier next to the name of the same language
POEDIT_SAME = [(['pt_BR'], ['Portuguese']), (['de_AT'], ['German']), (['nl_BE'], ['Dutch']), (['sr@latin'], ['Serbian']), (['it_CH'], ['Italian']), (['pt_BR'], ['German'])]


def path_shapes(ll, cc):
    """path shapes around the language ll_CC"""
    llcc = ll + '_' + cc
    other = 'de' if ll != 'de' else 'fr'
    return [
        ('plain', 'x.po'), ('plain-dir', 'po/messages.po'), ('ll.po', 'po/%s.po' % ll), ('ll_CC.po', 'po/%s.po' % llcc), ('other.po', '%s.po' % other),
        ('lll.po', 'pol.po'), ('enc.po', 'po/%s.UTF-8.po' % ll), ('euro.po', 'po/de_DE@euro.po'), ('unknown.po', 'po/xx.po'),
        ('lcm', 'usr/share/locale/%s/LC_MESSAGES/x.po' % ll), ('lcm-llcc', '/usr/share/locale/%s/LC_MESSAGES/x.mo' % llcc),
        ('lcm-other-base', 'locale/%s/LC_MESSAGES/%s.po' % (ll, other)), ('lcm-enc-euro', 'locale/de_DE.UTF-8@euro/LC_MESSAGES/x.mo'),
        ('lcm-unknown', 'locale/xx/LC_MESSAGES/%s.po' % ll), ('lcm-first', 'LC_MESSAGES/%s.po' % ll), ('lcm-dotdot', 'locale/%s/x/../LC_MESSAGES/y.gmo' % ll),
        ('libreoffice', 'translations/source/%s/dictionaries/pl_PL.po' % other), ('libreoffice-dash', 'translations/source/pt-BR/dictionaries/de.po'),
        ('libreoffice-self', 'a/%s/b/%s.po' % (ll, ll)), ('libreoffice-rel', '%s/b/pl_PL.po' % other), ('none-dir', 'a/None/b/%s.po' % ll),
        ('none-dir-lcm', 'None/LC_MESSAGES/../None/%s.po' % ll), ('mo', 'x.mo'), ('mo-ll', '%s.mo' % ll), ('pot', 'po/x.pot'), ('pot-ll', '%s.pot' % ll),
        ('newline.po', 'po/%s\n.po' % ll), ('newline-dir', 'locale/%s\n/LC_MESSAGES/x.po' % ll), ('dots.po', 'po/a/..po'),
        # the locale directory as the very first component of a relative path, and one level down
        ('lcm-rel-first', '%s/LC_MESSAGES/x.po' % ll), ('lcm-dot-first', './%s/LC_MESSAGES/x.po' % ll), ('lcm-rel-first-mo', '%s/LC_MESSAGES/x.mo' % llcc),
        ('lcm-rel-second', 'a/%s/LC_MESSAGES/x.po' % ll), ('lcm-rel-first-other', '%s/LC_MESSAGES/gizmo.po' % other),
    ]


def check_cases(ctx):
    out = []
    shapes = path_shapes('pl', 'PL')
    for opt in OPTS:
        for sname, path in shapes:
            for lname, metas in LANGVALS:
                for pname, pls, pcs in POEDIT[:6] if ctx.quick() else POEDIT:
                    template = path.endswith('.pot')
                    out.append(((opt, path, tuple(metas), tuple(pls), tuple(pcs), template), '%s/%s/%s/%s' % (opt, sname, lname, pname)))
    for metas, pls in POEDIT_SAME:
        for opt in (None, metas[0].split('@')[0].split('_')[0]):
            for path in ('po/x.po', 'po/messages.po'):
                out.append(((opt, path, tuple(metas), tuple(pls), (), False), 'poedit-same-language/%s' % metas[0]))
    # templates with every Language class, and non-templates named .pot (file type forced)
    for lname, metas in LANGVALS:
        for opt in (None, 'pl'):
            out.append(((opt, 'po/x.pot', tuple(metas), (), (), True), 'template/%s' % lname))
            out.append(((opt, 'po/pl.po', tuple(metas), ('Polish',), (), True), 'template-po/%s' % lname))
            out.append(((opt, 'po/x.pot', tuple(metas), (), (), False), 'pot-not-template/%s' % lname))
    if not ctx.quick():
        rng = ctx.rng
        from lib import ling
        codes = sorted(ling._iso_639)
        terrs = sorted(ling._iso_3166)
        names = sorted(ling._name_to_code)
        for _ in range(60000):
            ll = rng.choice(codes)
            cc = rng.choice(terrs)
            opt = rng.choice([None, None, ll, ll + '_' + cc, rng.choice(codes)])
            sname, path = rng.choice(path_shapes(ll, cc))
            r = rng.random()
            if r < 0.4:
                metas = [rng.choice([ll, ll + '_' + cc, ll + '.UTF-8', ll + '@euro', rng.choice(codes), rng.choice(names), ll + '\n', ll.upper()])]
            else:
                metas = list(rng.choice(LANGVALS)[1])
            pname, pls, pcs = rng.choice(POEDIT)
            if rng.random() < 0.3:
                pls = [rng.choice(names)]
            out.append(((opt, path, tuple(metas), tuple(pls), tuple(pcs), path.endswith('.pot')), 'random/%s' % sname))
    return out


def chunks(lst, n):
    return [lst[i:i + n] for i in range(0, len(lst), n)]


def run_stream(ctx, op, impl, items, line_of, label, nontriv=lambda m: m.startswith('ok')):
    req = [(line_of(x), x) for x in items]
    res = common.compare_parallel('harness.c19', impl, req, per_case_timeout=20)
    ctx.evaluations += len(res)
    for (line, payload, m, r) in res:
        ctx.count('%s:%s' % (label, ' '.join(r.split(' ')[:2]) if not r.startswith('ok') else 'ok'))
        if nontriv(r):
            ctx.nontriv((label, payload))
        if m != r:
            ctx.disagree(op, payload if isinstance(payload, str) else repr(payload), m[:400], r[:400])
    return res


def run_oracle(ctx, fn, items, size=2000):
    outs = common.pmap('harness.c19', fn, chunks(items, size), per_case_timeout=600)
    ctx.evaluations += len(items)
    for o in outs:
        if o == 'timeout' or isinstance(o, str):
            ctx.fail('oracle-timeout', fn, str(o))
            continue
        for kind, inp, what, finding in o:
            ctx.fail(kind, inp, what, finding=finding)


def check(ctx):
    build = common.coq_build()
    aud = common.audit(ctx.id, coqchk=not ctx.quick())
    maxlen = 5 if ctx.quick() else 6
    from lib import ling
    import re
    if ling._language_regexp.pattern != PATTERN or ling._language_regexp.flags != (re.VERBOSE | re.UNICODE):
        # not a violation by itself: the edited pattern is checked with the larger bound
        ctx.notes.append('ling._language_regexp differs from the text the scanner was written against: %r' % ling._language_regexp.pattern)
        maxlen = 6
    # 1. parse / print: small scope + structured + ISO codes
    strings = set(ss_strings(maxlen)) | set(locale_strings(ctx)) | set(iso_strings())
    if not ctx.quick():
        # longer names over one representative per class
        red = ['a', 'A', '_', '.', '@', '\n']
        for k in (7, 8):
            strings.update(''.join(t) for t in itertools.product(red, repeat=k))
        ctx.notes.append('parse/str: additionally every string of length 7 and 8 over %r' % ''.join(red))
    strings = sorted(strings)
    ctx.notes.append('parse/str: every string of length <= %d over %r, structured names, near-misses and ISO codes: %d strings in all' % (maxlen, ''.join(ALPHA), len(strings)))
    run_stream(ctx, 'lparse', 'impl_parse', strings, lambda s: 'lparse ' + enc_str(s), 'parse')
    zs = [s for s in strings if len(s) <= maxlen - 1]
    run_stream(ctx, 'lparsez', 'impl_parse_z', zs, lambda s: 'lparsez ' + enc_str(s), 'parseZ')
    # 2. fix_codes (twice) and the -l preparation on everything that may parse
    fixable = [s for s in strings if ref_locale(s.rstrip('\n')) is not None]
    run_stream(ctx, 'lfix', 'impl_fix', fixable, lambda s: 'lfix ' + enc_str(s), 'fix')
    run_stream(ctx, 'lcli', 'impl_cli', fixable, lambda s: 'lcli ' + enc_str(s), 'cli')
    run_oracle(ctx, 'oracle_parse_batch', strings, size=20000)
    # 3. language names
    ncs = name_cases(ctx)
    names = sorted(set(n for n, _, _ in ncs))
    run_stream(ctx, 'lname', 'impl_name', names, lambda s: 'lname ' + enc_str(munch(s)), 'name')
    run_oracle(ctx, 'oracle_name_batch', [(n, c) for n, c, _ in ncs if c is not None])
    # 4. path expressions
    paths = path_cases(ctx)
    run_stream(ctx, 'lpath', 'impl_path', paths, lambda s: 'lpath ' + enc_str(s), 'path', nontriv=lambda r: not r.startswith('dir=- notpo'))
    # 5. the decision logic
    ccs = check_cases(ctx)
    payloads = [p for p, _ in ccs]
    res = run_stream(ctx, 'lcheck', 'impl_check', payloads, line_check, 'check', nontriv=lambda r: not r.startswith('crash'))
    for (_, _, _, r) in res:
        for t in r.split(' || ')[0].split(' | '):
            if t:
                ctx.count('tag:' + t.split(' ')[0])
    run_oracle(ctx, 'oracle_check_batch', payloads, size=500)
    ctx.samples = [{'case': o, 'payload': repr(p)} for p, o in ccs[::max(1, len(ccs) // 8)]][:8] + [{'string': s} for s in ('pl_PL.utf-8@euro', 'pl\n')]
    return common.finish(
        ctx, 'proof', build, aud, TRUSTED, ASSUME,
        checker_cmd='tools/build.sh (coq_makefile + make: coqc on Props/C19.v) then coqc Audit_C19.v (Print Assumptions)',
        rule='model vs ling.parse_language/str (and the \\Z variant of the regex), fix_codes applied twice, the -l preparation of cli.main, '
             'get_language_for_name (every registered name with case/space/accent/comma/semicolon variants, the munched name passed as oracle value), '
             'the path expressions of check_language on enumerated paths, and Checker.check_language in-process over the product '
             '(-l) x (path shape) x (Language value class) x (X-Poedit-Language/Country); then independent oracles on the real functions: '
             'reference grammar (no re) for accept/reject and round trip, fix_codes laws against data/iso-codes read by hand, known-answer name lookups, '
             'reference verdict (disparity / invalid-language / unable / resulting language) from normalised locales. '
             'non-trivial = accepted name, resolved lookup, path with a language component, or completed check_language case')

"""PO catalog construction for the harnesses: a structured catalog -> PO text, a valid base
catalog, and slot mutators that put arbitrary (hostile) text into every free-text position."""
import copy

HOSTILE_CHARS = ['\n', '\x1b', '\x7f', '\x85', '\xa0', '\xad', '​', ' ', '﻿', '', '\U0010ffff',
                 '\x00', '\x01', '\t', '\r', "'", '"', '\\', ' ', '{', '}', '%', ';', ':', ',', '<', '>', 'é', '\udc80', '\x9b']
HOSTILE_STRINGS = [
    'a\n\x1b[31mE: forged: tag', '\x1b[2J', 'x\ry', "it's", '"q"', "'\"", 'a b', '', ' ', '\\n', '{0}', '{}', '%s', '%(a\nb)s',
    'é', '​', '﻿x', 'a b', '\x7f', '\x85', '\x9b31m', 'E: x.po: fake-tag', '\x00', 'a\tb', '(empty string)',
]


def hostile(rng):
    r = rng.random()
    if r < 0.5:
        return rng.choice(HOSTILE_STRINGS)
    n = rng.randrange(1, 6)
    return ''.join(rng.choice(HOSTILE_CHARS + ['a', 'b', 'E', ':', ' ']) for _ in range(n))


def po_escape(s):
    out = []
    for ch in s:
        if ch == '\\':
            out.append('\\\\')
        elif ch == '"':
            out.append('\\"')
        elif ch == '\n':
            out.append('\\n')
        elif ch == '\t':
            out.append('\\t')
        elif ch == '\r':
            out.append('\\r')
        elif ch == '\x00':
            out.append('\\000')
        elif ord(ch) < 0x20 or ch == '\x7f':
            # three octal digits: unambiguous whatever follows (a hex escape would swallow a following hex digit in gettext: D29)
            out.append('\\%03o' % ord(ch) if ch not in '\x1b' else ch)   # ESC also raw: both spellings occur
        else:
            out.append(ch)
    return ''.join(out)


def po_string(keyword, s, prefix=''):
    """keyword "..." possibly split at newlines like msgcat does"""
    parts = s.split('\n')
    if len(parts) == 1:
        return ['%s%s "%s"' % (prefix, keyword, po_escape(s))]
    lines = ['%s%s ""' % (prefix, keyword)]
    for i, p in enumerate(parts):
        seg = p + ('\n' if i < len(parts) - 1 else '')
        if seg:
            lines.append('%s"%s"' % (prefix, po_escape(seg)))
    return lines


def comment_safe(s):
    # a comment is one physical line: a raw newline would start a new PO line
    return s.replace('\n', ' ').replace('\r', ' ')


def render_entry(e):
    L = []
    pre = '#~ ' if e.get('obsolete') else ''
    for c in e.get('comments', []):
        L.append('# ' + comment_safe(c))
    for c in e.get('extracted', []):
        L.append('#. ' + comment_safe(c))
    for c in e.get('refs', []):
        L.append('#: ' + comment_safe(c))
    if e.get('flags') is not None and e.get('flags') != []:
        L.append('#, ' + ', '.join(comment_safe(f) for f in e['flags']))
    if e.get('prev_msgctxt') is not None:
        L += po_string('msgctxt', e['prev_msgctxt'], '#| ')
    if e.get('prev_msgid') is not None:
        L += po_string('msgid', e['prev_msgid'], '#| ')
    if e.get('prev_msgid_plural') is not None:
        L += po_string('msgid_plural', e['prev_msgid_plural'], '#| ')
    if e.get('msgctxt') is not None:
        L += po_string('msgctxt', e['msgctxt'], pre)
    L += po_string('msgid', e.get('msgid', ''), pre)
    if e.get('msgid_plural') is not None:
        L += po_string('msgid_plural', e['msgid_plural'], pre)
        for i, s in enumerate(e.get('msgstr_plural', ['', ''])):
            L += po_string('msgstr[%d]' % i, s, pre)
    else:
        L += po_string('msgstr', e.get('msgstr', ''), pre)
    return L


def render(cat):
    """catalog dict -> PO text (str).  cat: header_comments, header_flags, header (list of (name, value)) or
    header_raw (str), entries."""
    L = []
    for c in cat.get('header_comments', []):
        L.append('# ' + comment_safe(c) if c else '#')
    if cat.get('header_flags'):
        L.append('#, ' + ', '.join(comment_safe(f) for f in cat['header_flags']))
    if cat.get('header') is not None or cat.get('header_raw') is not None:
        if cat.get('header_raw') is not None:
            hv = cat['header_raw']
        else:
            hv = ''.join('%s: %s\n' % (k, v) for (k, v) in cat['header'])
        L.append('msgid ""')
        L.append('msgstr ""')
        for line in hv.split('\n')[:-1] if hv.endswith('\n') else hv.split('\n'):
            L.append('"%s\\n"' % po_escape(line))
        if not hv.endswith('\n') and hv:
            # last segment without trailing newline: rewrite it without \n
            L[-1] = L[-1][:-3] + '"'
        L.append('')
    for e in cat.get('entries', []):
        L += render_entry(e)
        L.append('')
    return '\n'.join(L) + '\n'


def base_header(lang='pl', charset='UTF-8', plural='nplurals=3; plural=n==1 ? 0 : n%10>=2 && n%10<=4 && (n%100<10 || n%100>=20) ? 1 : 2;'):
    return [
        ('Project-Id-Version', 'Gizmo Enhancer 1.0'),
        ('Report-Msgid-Bugs-To', 'gizmoenhancer@jwilk.net'),
        ('POT-Creation-Date', '2012-11-01 14:42+0100'),
        ('PO-Revision-Date', '2012-11-01 14:42+0100'),
        ('Last-Translator', 'Jakub Wilk <jwilk@jwilk.net>'),
        ('Language-Team', 'Polish <debian-l10n-polish@lists.debian.org>'),
        ('Language', lang),
        ('MIME-Version', '1.0'),
        ('Content-Type', 'text/plain; charset=' + charset),
        ('Content-Transfer-Encoding', '8bit'),
        ('Plural-Forms', plural),
    ]


def base_catalog():
    return {
        'header_comments': ['Polish translation of Gizmo Enhancer', 'Copyright (C) 2012 Jakub Wilk <jwilk@jwilk.net>',
                            'This file is distributed under the same license as the Gizmo Enhancer package.'],
        'header_flags': [],
        'header': base_header(),
        'entries': [
            {'msgid': 'A quick brown fox jumps over the lazy dog.', 'msgstr': 'Mężny bądź, chroń pułk twój i sześć flag.'},
            {'msgid': '%d quick brown fox jumps over the lazy dog.', 'msgid_plural': '%d quick brown foxes jump over the lazy dog.',
             'flags': ['c-format'],
             'msgstr_plural': ['%d szybki lis.', '%d szybkie lisy.', '%d szybkich lisów.']},
        ],
    }


def set_header(cat, name, value):
    cat['header'] = [(k, (value if k == name else v)) for (k, v) in cat['header']]


# slot mutators: each takes (cat, text, rng) and puts text into one free-text position
def _m_header_value(field):
    def f(cat, t, rng):
        set_header(cat, field, t.replace('\n', ' ') if rng.random() < 0.5 else t)
    return f


def _m_header_suffix(field):
    def f(cat, t, rng):
        cat['header'] = [(k, (v + t.replace('\n', '')) if k == field else v) for (k, v) in cat['header']]
    return f


def m_header_name(cat, t, rng):
    cat['header'].insert(rng.randrange(len(cat['header']) + 1), (t.replace('\n', '').replace(':', '') or 'X', 'v'))


def m_header_stray(cat, t, rng):
    cat['header'].insert(rng.randrange(len(cat['header']) + 1), (t.replace('\n', ''), ''))
    # rendered as "name: " — to get a line without colon use header_raw
    hv = ''.join('%s: %s\n' % (k, v) for (k, v) in cat['header'])
    cat['header_raw'] = hv + t.replace('\n', ' ') + '\n'


def m_header_comment(cat, t, rng):
    cat['header_comments'].append(t)


def m_header_flag(cat, t, rng):
    cat['header_flags'] = cat.get('header_flags', []) + [t.replace(',', '')]


def m_msgid(cat, t, rng):
    cat['entries'].append({'msgid': t or 'x', 'msgstr': 'y'})


def m_msgstr(cat, t, rng):
    cat['entries'].append({'msgid': 'hostile msgstr %d' % rng.randrange(1000), 'msgstr': t})


def m_msgctxt(cat, t, rng):
    cat['entries'].append({'msgctxt': t, 'msgid': 'ctx %d' % rng.randrange(1000), 'msgstr': 'y'})


def m_dup(cat, t, rng):
    cat['entries'].append({'msgid': t or 'd', 'msgstr': 'y'})
    cat['entries'].append({'msgid': t or 'd', 'msgstr': 'z'})


def m_flag(cat, t, rng):
    e = {'msgid': 'flagged %d' % rng.randrange(1000), 'msgstr': 'y', 'flags': [t.replace(',', ''), rng.choice(['fuzzy', 'c-format', 'range:1..2', 'no-wrap', 'wrap', 'x-format'])]}
    cat['entries'].append(e)


def m_format_flag(cat, t, rng):
    """a *-format flag with a hostile character inside its name, next to the flags that refer to the same format
    (redundant / conflicting flag diagnostics quote the flag text)"""
    h = ''.join(ch for ch in t if ch not in ',\n')[:3] or ' '
    if rng.random() < 0.7:
        # characters str.strip() removes: a tolerant reading of the flag would still recognise the format
        h = rng.choice(['\r', '\t', '\x0b', '\x0c', '\x1c', '\x1d', '\x1e', '\x1f', '\x85', '\u2028', '\u2029', ' ', '\xa0', '\u3000'])
    fmt = rng.choice(['c', 'python', 'python-brace', 'perl-brace'])
    k = rng.randrange(1000)
    for n, (bad, other) in enumerate([(fmt + h + '-format', 'possible-' + fmt + '-format'), (h + fmt + '-format', 'possible-' + fmt + '-format'),
                                      (fmt + h + '-format', 'no-' + fmt + '-format'), (fmt + '-format', 'possible-' + fmt + h + '-format'),
                                      ('possible-' + fmt + h + '-format', fmt + h + '-format')]):
        cat['entries'].append({'msgid': 'ff %d %d' % (k, n), 'msgstr': 'y', 'flags': [bad, other]})


def m_range_flag(cat, t, rng):
    cat['entries'].append({'msgid': 'r %d' % rng.randrange(1000), 'msgid_plural': 'rs', 'msgstr_plural': ['a', 'b', 'c'], 'flags': ['range:' + t.replace(',', '')]})


def _m_format(flag, mk):
    def f(cat, t, rng):
        src, dst = mk(t, rng)
        cat['entries'].append({'msgid': src, 'msgstr': dst, 'flags': [flag]})
    return f


def m_plural_str(cat, t, rng):
    cat['entries'].append({'msgid': 'one %d' % rng.randrange(1000), 'msgid_plural': 'many ' + t, 'msgstr_plural': [t, 'b' + t, ''][:rng.randrange(1, 4)]})


def m_prev(cat, t, rng):
    cat['entries'].append({'msgid': 'p %d' % rng.randrange(1000), 'msgstr': 'y', 'prev_msgid': t, 'flags': rng.choice([['fuzzy'], []])})


def m_comment(cat, t, rng):
    cat['entries'].append({'msgid': 'c %d' % rng.randrange(1000), 'msgstr': 'y', 'comments': [t], 'extracted': [t], 'refs': [t.replace(' ', '')]})


def m_xml(cat, t, rng):
    cat['entries'].append({'msgid': '<a>' + t, 'msgstr': '<b>' + t + '</c>', 'extracted': ['type: Content of: <para>']})


def m_newlines(cat, t, rng):
    cat['entries'].append({'msgid': '\n' + (t or 'x'), 'msgstr': (t or 'x') + '\n'})


def m_conflict(cat, t, rng):
    cat['entries'].append({'msgid': 'cm %d' % rng.randrange(1000), 'msgstr': '#-#-#-#-#  ' + t.replace('\n', '') + '  #-#-#-#-#\nx'})


def m_obsolete(cat, t, rng):
    cat['entries'].append({'msgid': t or 'o', 'msgstr': t, 'obsolete': True})


SLOTS = {}
for _f in ['Project-Id-Version', 'Report-Msgid-Bugs-To', 'POT-Creation-Date', 'PO-Revision-Date', 'Last-Translator', 'Language-Team',
           'Language', 'MIME-Version', 'Content-Type', 'Content-Transfer-Encoding', 'Plural-Forms']:
    SLOTS['header:' + _f] = _m_header_value(_f)
for _f in ['Content-Type', 'Plural-Forms', 'Language', 'PO-Revision-Date']:
    SLOTS['header-suffix:' + _f] = _m_header_suffix(_f)
SLOTS.update({
    'header-name': m_header_name, 'header-stray': m_header_stray, 'header-comment': m_header_comment, 'header-flag': m_header_flag,
    'msgid': m_msgid, 'msgstr': m_msgstr, 'msgctxt': m_msgctxt, 'duplicate': m_dup, 'flag': m_flag, 'range-flag': m_range_flag,
    'plural-strings': m_plural_str, 'format-flag': m_format_flag, 'previous-msgid': m_prev, 'comments': m_comment, 'xml': m_xml, 'newlines': m_newlines,
    'conflict-marker': m_conflict, 'obsolete': m_obsolete,
    'c-format': _m_format('c-format', lambda t, r: ('%s %d', '%d ' + t + ' %' + t)),
    'c-format-2': _m_format('c-format', lambda t, r: ('%1$s %2$d' + t, '%2$d %1$' + t + 's')),
    'python-format': _m_format('python-format', lambda t, r: ('%(a)s', '%(' + t + ')s %(' + t + ')d')),
    'python-format-2': _m_format('python-format', lambda t, r: ('%(' + t + ')s %s', '%(x' + t + ')s')),
    'python-brace-format': _m_format('python-brace-format', lambda t, r: ('{a} {0}', '{' + t + '} {a:' + t + '}')),
    'python-brace-format-2': _m_format('python-brace-format', lambda t, r: ('{' + t + '}', '{x' + t + '!' + t + '}')),
    'perl-brace-format': _m_format('perl-brace-format', lambda t, r: ('{a}', '{' + t + '} {b' + t + '}')),
    # file text inside the index of a python-brace field name ("[" anything but "]" "]") becomes the KEY that the
    # unknown-argument / missing-argument diagnostics print
    'python-brace-index': _m_format('python-brace-format', lambda t, r: ('brace {A}', 'brace {A} {B[' + _idx(t) + ']}')),
    'python-brace-index-2': _m_format('python-brace-format', lambda t, r: ('{A[' + _idx(t) + ']} {0}', '{0}')),
    'python-brace-index-3': _m_format('python-brace-format', lambda t, r: ('{0[' + _idx(t) + '].x}', '{0[' + _idx(t) + 'y]:d}')),
})


def _idx(t):
    return ''.join(ch for ch in t if ch not in ']{}') or 'i'


def hostile_catalog(rng, nslots=None):
    cat = copy.deepcopy(base_catalog())
    names = sorted(SLOTS)
    k = nslots or rng.choice([1, 1, 2, 3])
    used = []
    for _ in range(k):
        name = rng.choice(names)
        t = hostile(rng)
        SLOTS[name](cat, t, rng)
        used.append((name, t))
    return cat, used

"""What GNU gettext reads from the text between the quotes of a PO string: an independent reference for the harnesses.

Two sources, neither of them the Coq model nor the tool:
 * msgfmt itself when it is installed: the spellings are written as msgstr values of one PO file (charset ISO-8859-1,
   --no-convert so that the MO file keeps the bytes), compiled, and the bytes are read back from the MO file;
 * `c_read`: a small implementation of the rule of gettext's lexer (po-lex.c, control_sequence) / C99 6.4.4.4:
   named escapes, up to three octal digits, `\\x` followed by EVERY hexadecimal digit that comes, the low 8 bits kept.

`read_all` uses msgfmt when it can and cross-checks it against `c_read`."""
import os
import shutil
import struct
import subprocess
import tempfile

HEXD = '0123456789abcdefABCDEF'
_NAMED = {'n': 10, 't': 9, 'b': 8, 'r': 13, 'f': 12, 'v': 11, 'a': 7, '\\': 92, '"': 34}


def c_read(s, charset='ISO-8859-1'):
    """bytes gettext appends for the chunk text s; None when gettext rejects the spelling (\\8, lone backslash, \\x without digit...)"""
    out = bytearray()
    i = 0
    n = len(s)
    while i < n:
        c = s[i]
        if c != '\\':
            if c == '"' or c == '\n':
                return None
            out += c.encode(charset)
            i += 1
            continue
        if i + 1 >= n:
            return None
        e = s[i + 1]
        if e in _NAMED:
            out.append(_NAMED[e])
            i += 2
        elif e in '01234567':
            j = i + 1
            v = 0
            while j < n and j < i + 4 and s[j] in '01234567':
                v = v * 8 + int(s[j])
                j += 1
            out.append(v & 0xff)
            i = j
        elif e == 'x':
            j = i + 2
            if j >= n or s[j] not in HEXD:
                return None
            v = 0
            while j < n and s[j] in HEXD:
                v = (v * 16 + int(s[j], 16)) & 0xff      # only the low 8 bits matter: no number grows with the input
                j += 1
            out.append(v)
            i = j
        else:
            return None
    return bytes(out)


def has_long_hex(s):
    """the PO text contains a hexadecimal ESCAPE (not an escaped backslash followed by x...) with three or more digits:
    the structural predicate of D29"""
    i = 0
    n = len(s)
    while i < n:
        if s[i] == '\\' and i + 1 < n:
            if s[i + 1] == 'x' and i + 5 <= n and all(ch in HEXD for ch in s[i + 2:i + 5]):
                return True
            i += 2
        else:
            i += 1
    return False


def escape_spans(s):
    """[(start, end)] of the escape sequences of chunk text s as gettext delimits them"""
    spans = []
    i = 0
    n = len(s)
    while i < n:
        if s[i] == '\\' and i + 1 < n:
            e = s[i + 1]
            j = i + 2
            if e == 'x':
                while j < n and s[j] in HEXD:
                    j += 1
            elif e in '01234567':
                while j < n and j < i + 4 and s[j] in '01234567':
                    j += 1
            spans.append((i, j))
            i = j
        else:
            i += 1
    return spans


def _mo_pairs(blob):
    magic = struct.unpack('<I', blob[:4])[0]
    bo = '<' if magic == 0x950412de else '>'
    _rev, n, oo, ot = struct.unpack(bo + 'IIII', blob[4:20])
    out = {}
    if n > len(blob):          # never loop on a number the file merely claims
        return out
    for i in range(n):
        kl, ko = struct.unpack(bo + 'II', blob[oo + 8 * i:oo + 8 * i + 8])
        vl, vo = struct.unpack(bo + 'II', blob[ot + 8 * i:ot + 8 * i + 8])
        out[blob[ko:ko + kl]] = blob[vo:vo + vl]
    return out


def msgfmt_path():
    return shutil.which('msgfmt')


def msgfmt_read(spellings, charset='ISO-8859-1', at_chunk_end=False):
    """the bytes msgfmt stores for each spelling (None for a spelling it could not be asked about); None when msgfmt is
    missing or refuses the file.  Each spelling sits between '<' and '>' so that it never begins or ends the string;
    with at_chunk_end the spelling ends its chunk and '>' comes on a continuation line."""
    exe = msgfmt_path()
    if exe is None:
        return None
    askable = []
    for s in spellings:
        r = c_read(s, charset)
        # msgfmt refuses NUL and EOT inside strings
        askable.append(r is not None and 0 not in r and 4 not in r)
    lines = ['msgid ""', 'msgstr ""', '"Content-Type: text/plain; charset=%s\\n"' % charset, '']
    for i, s in enumerate(spellings):
        if not askable[i]:
            continue
        lines.append('msgid "k%d"' % i)
        if at_chunk_end:
            lines += ['msgstr "<%s"' % s, '">"', '']
        else:
            lines += ['msgstr "<%s>"' % s, '']
    d = tempfile.mkdtemp(prefix='gtref')
    try:
        po = os.path.join(d, 'x.po')
        mo = os.path.join(d, 'x.mo')
        with open(po, 'w', encoding=charset, newline='\n') as f:
            f.write('\n'.join(lines))
        args = [exe, '-o', mo, po]
        p = subprocess.run([exe, '--help'], stdout=subprocess.PIPE, stderr=subprocess.PIPE, timeout=60)
        if b'--no-convert' in p.stdout:      # gettext >= 0.22 converts the MO file to UTF-8 unless told not to
            args.insert(1, '--no-convert')
        p = subprocess.run(args, stdout=subprocess.PIPE, stderr=subprocess.PIPE, timeout=120)
        if p.returncode != 0 or not os.path.exists(mo):
            return None
        pairs = _mo_pairs(open(mo, 'rb').read())
    finally:
        shutil.rmtree(d, ignore_errors=True)
    out = []
    for i, s in enumerate(spellings):
        v = pairs.get(b'k%d' % i) if askable[i] else None
        out.append(v[1:-1] if v is not None and v[:1] == b'<' and v[-1:] == b'>' else None)
    return out


def read_all(spellings, charset='ISO-8859-1'):
    """-> (sources, values, mismatches): values[i] = the bytes gettext reads for spellings[i] (None = rejected);
    sources[i] = 'msgfmt' or 'c-rule' (msgfmt missing, or a value with NUL / EOT, which msgfmt refuses);
    mismatches = spellings on which msgfmt and the C rule differ (must be empty)"""
    ref = [c_read(s, charset) for s in spellings]
    got = msgfmt_read(spellings, charset)
    if got is None:
        return ['c-rule'] * len(spellings), ref, []
    got_end = msgfmt_read(spellings, charset, at_chunk_end=True) or got
    values = []
    sources = []
    mismatches = []
    for s, r, g, ge in zip(spellings, ref, got, got_end):
        if g is None:
            values.append(r)
            sources.append('c-rule')
            continue
        values.append(g)
        sources.append('msgfmt')
        if g != r or (ge is not None and ge != g):
            mismatches.append((s, g, ge, r))
    return sources, values, mismatches

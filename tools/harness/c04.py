"""C04: plural expressions are parsed and evaluated exactly as C/gettext would."""
import itertools
import json
import os

import common
from harness import intexpr_lib as L
from harness import intexpr_streams as S

TRUSTED = [
    'Coq 8.16.1 kernel (coqc, vm_compute); coqchk in thorough tier',
    'axioms: none (Print Assumptions must report "Closed under the global context" for every theorem of Props/C04.v)',
    'Spec/CPlural.v: hand-written reading of plural.y (stratified %left/%right grammar G, clause-by-clause transcription yylex1/Yylex '
    'of its yylex) and eval-plural.h (ceval, InRange)',
    'hand-written Gallina model Model/IntExpr.v (lex, pgo, pyeval) of lib/intexpr.py / gettext.parse_plural_expression',
    'Generated/PyConsts.v (int_max_str_digits read from the interpreter after `import lib`), regenerated every run',
    'source translator tools/gen/gen_intexpr_src.py (python ast -> Gallina, rules in its docstring) + Lib/PySrc.v: Generated/IntExprSrc.v is trusted to mean what the methods of class Evaluator/BaseEvaluator mean; the hand-written mirror of the getattr dispatch and gcd = Z.gcd are tied by correspondence only',
    'extraction (ExtrOcamlBasic only) + ocaml/driver.ml + zarith for decimal I/O',
    'harness reference parser/evaluator (tools/harness/intexpr_lib.py ref_parse/ref_eval), written from plural.y / eval-plural.h',
    'rply itself (lexer rule order, LALR tables, precedence resolution) is not verified: it is modelled by lex + a precedence-climbing '
    'parser, which ARE proved equal to plural.y yylex + the stratified grammar (C04_lexer_spec, C04_parse_iff, C04_accept_iff); '
    'model = rply-built parser is the correspondence below',
]
ASSUME = ['a plural expression is a string plural.y accepts AND reads to its end: plural.y stops at ";", newline and NUL and ignores the '
          'rest, the tool rejects these characters (C04_terminator_rejected, C04_no_terminator); they cannot reach the parser from a '
          'header field except NUL',
          'NUMBER is the unbounded decimal value (plural.y accumulates in unsigned long and wraps at 2^W); constants >= 2^32 are outside '
          'the range in which evaluation is compared (InRange)']

CHARS = ['n', '1', '0', '9', ' ', '\t', '!', '=', '<', '>', '&', '|', '+', '-', '*', '/', '%', '?', ':', '(', ')', 'x', '\n', '٣', ';', 'N', '\x00', '²']


def parse_cases(ctx):
    rng = ctx.rng
    cases = []
    maxlen = 4 if ctx.quick() else 5
    for s in L.token_sequences(maxlen):
        cases.append((s, 'tokens<=%d' % maxlen))
    # reduced alphabet: one representative per precedence class, longer sequences
    red = ['?', ':', '||', '&&', '==', '<', '+', '*', '!', '(', ')', 'n']
    n6 = 6 if ctx.quick() else 7
    for k in (maxlen + 1, n6):
        if ctx.quick():
            for _ in range(30000):
                cases.append((' '.join(rng.choice(red) for _ in range(k)), 'reduced-sample'))
        else:
            if k <= 6:
                for seq in itertools.product(red, repeat=k):
                    cases.append((' '.join(seq), 'reduced-%d' % k))
            else:
                for _ in range(400000):
                    cases.append((' '.join(rng.choice(red) for _ in range(k)), 'reduced-sample'))
    # every expression with <= 2 (3 in thorough: sampled) operators, minimal and no-space spelling
    lv = ['n', 1, 2]
    for k in range(0, 3):
        for t in L.all_trees(k, lv):
            cases.append((L.show(t, 'min'), 'trees-min'))
    pool3 = None
    nsamp3 = 20000 if ctx.quick() else 200000
    leaves2 = ['n', 7]
    cnt = 0
    for t in L.all_trees(3, leaves2):
        cnt += 1
    # sample by index
    idx = set(rng.sample(range(cnt), min(nsamp3, cnt)))
    for i, t in enumerate(L.all_trees(3, leaves2)):
        if i in idx:
            cases.append((L.show(t, 'min'), 'trees3-min'))
    # random well-formed with redundant parentheses and blanks
    nrand = 10000 if ctx.quick() else 200000
    for _ in range(nrand):
        t = L.rand_tree(rng, rng.randrange(1, 7), [0, 1, 2, 5, 10, 100, 4294967295, 4294967296])
        cases.append((L.show(t, rng.choice(['min', 'rand', 'full']), rng), 'random-wf'))
    # character-level malformed stream
    nchar = 20000 if ctx.quick() else 400000
    for k in range(0, 3):
        for seq in itertools.product(CHARS, repeat=k):
            cases.append((''.join(seq), 'chars<=2'))
    for _ in range(nchar):
        k = rng.randrange(1, 9)
        cases.append((''.join(rng.choice(CHARS) for _ in range(k)), 'chars-random'))
    # mutated well-formed
    for _ in range(nchar // 2):
        t = L.rand_tree(rng, rng.randrange(1, 5), [0, 1, 2, 10])
        s = list(L.show(t, 'rand', rng))
        for _ in range(rng.randrange(1, 3)):
            if s and rng.random() < 0.5:
                del s[rng.randrange(len(s))]
            else:
                s.insert(rng.randrange(len(s) + 1), rng.choice(CHARS))
        cases.append((''.join(s), 'mutated'))
    # long constants and deep nesting (D7, D12 families)
    for nd in (1, 10, 100, 4299, 4300, 4301, 5000, 20000):
        cases.append(('9' * nd, 'long-constant'))
        cases.append(('n+' + '1' * nd + '*2', 'long-constant'))
        cases.append(('0' * nd + '1', 'long-constant'))
        cases.append(('1' * nd + ' @', 'long-constant'))
    for depth in (10, 100, 200, 600):
        cases.append(('(' * depth + 'n' + ')' * depth, 'deep'))
        cases.append(('!' * depth + 'n', 'deep'))
        cases.append(('n' + '+1' * depth, 'deep'))
        cases.append(('n?' * depth + '1' + ':1' * depth, 'deep'))
    return cases


def eval_cases(ctx, corpus_exprs):
    rng = ctx.rng
    cases = []
    special_n = lambda b: sorted(set(list(range(0, 21)) + [(1 << b) - 1, 1 << b, (1 << b) + 1, (1 << b) // 2]))
    for s in corpus_exprs:
        for b in (1, 2, 8, 32):
            for n in special_n(b):
                cases.append((b, n, s))
    # exhaustive n for small widths over small trees
    for b in (1, 2, 3):
        lv = ['n'] + S.leaves_for(b)
        for k in (0, 1):
            for t in L.all_trees(k, lv):
                s = L.show(t, 'min')
                for n in range((1 << b) + 1):
                    cases.append((b, n, s))
    for d in (50, 600):
        for s in L.deep_family(d):
            cases.append((32, 1, s))
    nrand = 8000 if ctx.quick() else 300000
    widths = [1, 2, 3, 4, 5, 6, 7, 8, 16, 31, 32, 32, 32]
    for i in range(nrand):
        b = widths[i % len(widths)]
        M = 1 << b
        lv = S.leaves_for(b) + [rng.randrange(0, M + 2), 5, 7, 10, 100, M // 2, M // 2 + 1]
        t = L.rand_tree(rng, rng.randrange(1, 6), lv)
        s = L.show(t, 'min')
        ns = rng.sample(special_n(b), 4) + [rng.randrange(0, M) for _ in range(3)]
        for n in ns:
            cases.append((b, n, s))
    return cases


def corpus():
    p = os.path.join(common.VERIF, 'corpus', 'C04')
    out = list(S.REGISTRY_LIKE)
    if os.path.isdir(p):
        for f in sorted(os.listdir(p)):
            out.extend(json.load(open(os.path.join(p, f))))
    return out


def ref_parse_payload(s):
    return L.ref_parse_str(s)


def ref_eval_payload(payload):
    bits, n, s = payload
    try:
        t = L.ref_parse(s)
    except L.RefSyntaxError:
        return 'err syntax'
    return L.ref_eval_str(t, n, 1 << bits)


def check(ctx):
    build = common.coq_build()
    aud = common.audit(ctx.id, coqchk=not ctx.quick())
    maxd = L.maxdigits()
    # ---- parsing
    pcs = parse_cases(ctx)
    seen = set()
    upcs = []
    for s, o in pcs:
        if s not in seen:
            seen.add(s)
            upcs.append((s, o))
    req = [(L.line_parse(s, maxd), s) for (s, _) in upcs]
    res = common.compare_parallel('harness.intexpr_lib', 'impl_parse', req, per_case_timeout=30)
    refs = common.pmap('harness.c04', 'ref_parse_payload', [s for (s, _) in upcs])
    ctx.evaluations += len(res)
    by_line = {line: (m, r) for (line, _, m, r) in res}
    for (s, o), (line, _), ref in zip(upcs, req, refs):
        m, r = by_line[line]
        ctx.count('parse:' + r.split(' ')[0] + (':' + r.split(' ')[1] if not r.startswith('ok') else ''))
        if r.startswith('ok'):
            ctx.nontriv(('p', s))
        if r != ref:
            # the implementation disagrees with the plural.y reference: the property itself fails on this input
            kind = 'parse-crash' if r.startswith('crash') else ('parse-acceptance' if (r.startswith('ok') != ref.startswith('ok')) else 'parse-structure')
            finding = None
            ctx.fail(kind, {'expr': s, 'origin': o}, 'implementation: %s ; plural.y reference: %s' % (r[:300], ref[:300]), finding)
        elif m != r:
            ctx.disagree('parse', {'expr': s, 'origin': o}, m[:300], r[:300])
    # ---- evaluation
    ecs = eval_cases(ctx, corpus())
    ecs = list(dict.fromkeys(ecs))
    req = [(L.line_eval(b, n, s, maxd), (b, n, s)) for (b, n, s) in ecs]
    res = common.compare_parallel('harness.intexpr_lib', 'impl_eval', req)
    refs = common.pmap('harness.c04', 'ref_eval_payload', ecs)
    ctx.evaluations += len(res)
    by_line = {line: (m, r) for (line, _, m, r) in res}
    for c, (line, _), ref in zip(ecs, req, refs):
        m, r = by_line[line]
        ctx.count('eval:' + ' '.join(r.split(' ')[:2]) if not r.startswith('ok') else 'eval:ok')
        if r.startswith('ok') or r.startswith('err o') or r.startswith('err d'):
            ctx.nontriv(('e',) + c)
        if L.recursion_finding(ctx, c[2], r, 'evaluation'):
            continue
        if r != ref:
            ctx.fail('eval-crash' if r.startswith('crash') else 'eval-value', {'bits': c[0], 'n': c[1], 'expr': c[2]},
                     'implementation: %s ; eval-plural.h reference: %s' % (r, ref), None)
        elif m != r:
            ctx.disagree('eval', {'bits': c[0], 'n': c[1], 'expr': c[2]}, m, r)
    ctx.samples = [{'parse': s, 'origin': o} for (s, o) in upcs[::max(1, len(upcs) // 6)]][:6] + \
                  [{'eval': {'bits': b, 'n': n, 'expr': s}} for (b, n, s) in ecs[::max(1, len(ecs) // 6)]][:6]
    return common.finish(
        ctx, 'proof', build, aud, TRUSTED, ASSUME,
        checker_cmd='tools/build.sh (coq_makefile + make: coqc on Props/C04.v) then coqc Audit_C04.v (Print Assumptions)',
        rule='three-way comparison (extracted model / gettext.parse_plural_expression + Expression.__call__ / independent plural.y + '
             'eval-plural.h reference in the harness). parse: every space-joined token sequence of length <= %d over 20 token shapes, '
             'longer sequences over a reduced alphabet, every expression with <= 2 operators and a sample with 3 in minimal-parenthesis '
             'spelling, random well-formed expressions with redundant parentheses/blanks, character-level strings (all of length <= 2 over '
             '%d characters, random up to 8, mutated well-formed), long constants, deep nesting. eval: corpus x boundary n, exhaustive '
             'n <= 2^b for b <= 3 over expressions with <= 1 operator, random expressions at widths 1..8,16,31,32 at boundary and random n. '
             'non-trivial = distinct accepted string (parse) or distinct (bits,n,expr) with a value or an own error (eval)'
             % (4 if ctx.quick() else 5, len(CHARS)))

"""Shared by C08 and C09: MO serialiser parameterised by layout, catalog generators, implementation runner
(the real moparser.Parser on a temporary file), translation of the model's result line into the expected
implementation result (codec and is_ascii_compatible_encoding applied as oracles), and an independent
straight-line reference reader written from gettext's gmo.h."""
import os
import struct

import common

MAGIC_LE = b'\xde\x12\x04\x95'
MAGIC_BE = MAGIC_LE[::-1]
TMPDIR = os.path.join(common.WORK, 'mo-tmp')

_env = {}


def setup():
    """the environment the CLI runs the parser in: extra encodings registered, polib patched"""
    if 'ok' not in _env:
        common.ensure_path()
        from harness import impl_checker as IC
        IC.get_checker_class()
        os.makedirs(TMPDIR, exist_ok=True)
        _env['ok'] = True


def asc(name):
    """the tool's answer to "is this charset ASCII-compatible" (an oracle of the model); when the function itself raises, the
    loader that calls it fails the same way: that is reported through the implementation's own result, here the answer is no"""
    setup()
    from lib import encodings as E
    try:
        return bool(E.is_ascii_compatible_encoding(name))
    except Exception:  # noqa
        return False


# ---------------------------------------------------------------- catalogs (text level) and their bytes
# entry = (ctxt | None, id, plural | None, [strs]) ; non-plural entries have exactly one str

def key_bytes(e, cs):
    ctxt, mid, pl, _ = e
    k = b''
    if ctxt is not None:
        k += ctxt.encode(cs) + b'\x04'
    k += mid.encode(cs)
    if pl is not None:
        k += b'\0' + pl.encode(cs)
    return k


def val_bytes(e, cs):
    return b'\0'.join(s.encode(cs) for s in e[3])


def sort_key(e, cs):
    ctxt, mid, _, _ = e
    return (ctxt.encode(cs) + b'\x04' if ctxt is not None else b'') + mid.encode(cs)


SAMPLE_TEXT = ('éüßñåłążřőαβωЖяёєאת'
               'ابกอあア中文語한글€’ ¿ığế©')
_alpha_cache = {}


def alphabet(cs):
    """non-ASCII characters that the codec round-trips and whose bytes contain neither NUL nor EOT"""
    if cs not in _alpha_cache:
        ok = []
        for ch in SAMPLE_TEXT:
            try:
                b = ch.encode(cs)
                if b.decode(cs) == ch and 0 not in b and 4 not in b and ('x' + ch + 'y').encode(cs).decode(cs) == 'x' + ch + 'y':
                    ok.append(ch)
            except (UnicodeError, LookupError):
                pass
        _alpha_cache[cs] = ok
    return _alpha_cache[cs]


ASCII_CHARS = 'abcdeXYZ019 %s{}.,:;=-_/\\\n\t"\'<>&'


def rand_text(rng, cs, maxlen=8, allow_empty=True):
    n = rng.randrange(0 if allow_empty else 1, maxlen + 1)
    al = alphabet(cs)
    out = []
    for _ in range(n):
        if al and rng.random() < 0.35:
            out.append(rng.choice(al))
        else:
            out.append(rng.choice(ASCII_CHARS))
    return ''.join(out)


def charset_names():
    """ASCII-compatible Python-supported charsets of data/encodings, under the spellings a header may use"""
    setup()
    from lib import encodings as E
    names = [n for n in sorted(E.get_portable_encodings()) if asc(n)]
    return names


def gen_catalog(rng, cs, header='std', nmax=5, contexts=True, plurals=True, dup=False):
    """a sorted catalog; header: 'std' (charset=cs), 'none' (no header entry; text then ASCII only),
    'nocharset', 'lower' (charset name in lower case), 'late' (charset= preceded by other fields)"""
    tcs = cs if header in ('std', 'lower', 'late') else 'ascii'
    entries = []
    n = rng.randrange(0, nmax + 1)
    for _ in range(n):
        ctxt = rand_text(rng, tcs, 4) if (contexts and rng.random() < 0.3) else None
        mid = rand_text(rng, tcs, 6, allow_empty=(ctxt is not None))
        if ctxt is not None and rng.random() < 0.1:
            mid += '\x04' + rand_text(rng, tcs, 2)
        if plurals and rng.random() < 0.3:
            pl = rand_text(rng, tcs, 6)
            strs = [rand_text(rng, tcs, 6) for _ in range(rng.randrange(1, 5))]
        else:
            pl = None
            strs = [rand_text(rng, tcs, 8)]
        if mid == '' and ctxt is None:
            continue
        entries.append((ctxt, mid, pl, strs))
    if dup and entries:
        c, m, p, s = rng.choice(entries)
        entries.append((c, m, None, ['dup']))
    if header != 'none':
        name = cs.lower() if header == 'lower' else cs
        h = 'Project-Id-Version: x\n'
        if header == 'nocharset':
            h += 'Content-Type: text/plain\n'
        elif header == 'late':
            h += 'X-Note: charset= \nContent-Type: text/plain; charset=%s\nX-Other: charset=KOI8-R\n' % name
        else:
            h += 'Content-Type: text/plain; charset=%s\n' % name
        entries.append((None, '', None, [h]))
    entries.sort(key=lambda e: sort_key(e, tcs))   # stable: duplicates keep their order
    return entries, tcs


# ---------------------------------------------------------------- serialiser
class Layout:
    def __init__(self, be=False, major=0, minor=0, sysdep=0, hash_words=0, order=('otab', 'ttab', 'hash', 'poolA', 'poolB'),
                 pad=0, share=False, shuffle=False, header_extra=0, trailing=0):
        self.be = be
        self.major = major
        self.minor = minor
        self.sysdep = sysdep              # n_sysdep_strings (only written when the header has the field)
        self.hash_words = hash_words
        self.order = tuple(order)
        self.pad = pad                    # max random padding between items
        self.share = share                # reuse an existing occurrence of "string NUL" (suffix sharing, overlap)
        self.shuffle = shuffle            # strings are placed in random order, in either pool
        self.header_extra = header_extra
        self.trailing = trailing

    def describe(self):
        return dict(be=self.be, major=self.major, minor=self.minor, sysdep=self.sysdep, hash_words=self.hash_words,
                    order=list(self.order), pad=self.pad, share=self.share, shuffle=self.shuffle,
                    header_extra=self.header_extra, trailing=self.trailing)

    def hidden(self):
        return self.minor > 1 or (self.minor == 1 and self.sysdep > 0)


def rand_layout(rng):
    order = ['otab', 'ttab', 'hash', 'poolA', 'poolB']
    rng.shuffle(order)
    minor = rng.choice([0, 0, 1, 1, 0, 1, 2, 7]) if rng.random() < 0.15 else rng.choice([0, 1])
    return Layout(be=rng.random() < 0.5, major=rng.choice([0, 0, 1]), minor=minor,
                  sysdep=rng.choice([0, 0, 0, 1, 3]) if minor >= 1 else 0,
                  hash_words=rng.choice([0, 0, 3, 7]), order=order, pad=rng.choice([0, 0, 1, 5]),
                  share=rng.random() < 0.5, shuffle=rng.random() < 0.6,
                  header_extra=rng.choice([0, 0, 4, 9]), trailing=rng.choice([0, 0, 3]))


def serialise(kvs, L, rng):
    """kvs: list of (key bytes, value bytes).  Returns (data, info); info has the offsets used by the fault
    enumeration: 'words' (offsets of every header and table word), 'terms' (offsets of terminators),
    'desc' [(klen, koff, vlen, voff)]."""
    e = '>' if L.be else '<'
    n = len(kvs)
    hdr_words = 7 if L.minor == 0 else 12
    hdr_len = 4 * hdr_words + L.header_extra

    def padding():
        return bytes(rng.randrange(256) for _ in range(rng.randrange(L.pad + 1))) if L.pad else b''

    # strings into two pools
    items = []
    for i, (k, v) in enumerate(kvs):
        items.append(('k', i, k + b'\0'))
        items.append(('v', i, v + b'\0'))
    if L.shuffle:
        rng.shuffle(items)
    pools = {'poolA': bytearray(), 'poolB': bytearray()}
    place = {}
    for kind, i, s in items:
        pn = rng.choice(['poolA', 'poolB']) if L.shuffle else 'poolA'
        found = None
        if L.share:
            for qn in ('poolA', 'poolB'):
                j = bytes(pools[qn]).find(s)
                if j >= 0:
                    found = (qn, j)
                    break
        if found is None:
            pools[pn] += padding()
            found = (pn, len(pools[pn]))
            pools[pn] += s
        place[(kind, i)] = found
    sizes = {'otab': 8 * n, 'ttab': 8 * n, 'hash': 4 * L.hash_words, 'poolA': len(pools['poolA']), 'poolB': len(pools['poolB'])}
    pos = hdr_len
    start = {}
    pads = {}
    for r in L.order:
        pads[r] = padding()
        pos += len(pads[r])
        start[r] = pos
        pos += sizes[r]
    desc = []
    for i, (k, v) in enumerate(kvs):
        kp = place[('k', i)]
        vp = place[('v', i)]
        desc.append((len(k), start[kp[0]] + kp[1], len(v), start[vp[0]] + vp[1]))
    hw = [(L.major << 16) | L.minor, n, start['otab'], start['ttab'], L.hash_words, start['hash'] if L.hash_words else rng.randrange(1 << 32) * (L.pad > 0)]
    if hdr_words == 12:
        hw += [rng.randrange(4) * (L.pad > 0), rng.randrange(1 << 16) * (L.pad > 0), L.sysdep, rng.randrange(1 << 16) * (L.pad > 0), rng.randrange(1 << 16) * (L.pad > 0)]
    out = bytearray((MAGIC_BE if L.be else MAGIC_LE) + struct.pack(e + '%dI' % len(hw), *hw))
    out += bytes(rng.randrange(256) for _ in range(L.header_extra))
    assert len(out) == hdr_len
    for r in L.order:
        out += pads[r]
        assert len(out) == start[r]
        if r == 'otab':
            for (kl, ko, vl, vo) in desc:
                out += struct.pack(e + '2I', kl, ko)
        elif r == 'ttab':
            for (kl, ko, vl, vo) in desc:
                out += struct.pack(e + '2I', vl, vo)
        elif r == 'hash':
            out += bytes(rng.randrange(256) for _ in range(4 * L.hash_words))
        else:
            out += pools[r]
    out += bytes(rng.randrange(256) for _ in range(L.trailing))
    words = [4, 8, 12, 16, 20, 24] + ([28, 32, 36, 40, 44] if hdr_words == 12 else [])
    for i in range(n):
        words += [start['otab'] + 8 * i, start['otab'] + 8 * i + 4, start['ttab'] + 8 * i, start['ttab'] + 8 * i + 4]
    terms = sorted({ko + kl for (kl, ko, vl, vo) in desc} | {vo + vl for (kl, ko, vl, vo) in desc})
    return bytes(out), {'words': words, 'terms': terms, 'desc': desc, 'be': L.be, 'n': n, 'otab': start['otab'], 'ttab': start['ttab']}


def serialise_catalog(entries, cs, L, rng):
    return serialise([(key_bytes(e, cs), val_bytes(e, cs)) for e in entries], L, rng)


# ---------------------------------------------------------------- implementation runner
MSG = {
    'unexpected magic': 'magic', 'truncated file': 'truncated',
    'msgid is not null-terminated': 'id-not-terminated', 'msgstr is not null-terminated': 'str-not-terminated',
    'unexpected null byte in msgid': 'id-nul', 'unexpected null byte in msgstr': 'str-nul',
    'duplicate message definition': 'duplicate', 'messages are not sorted': 'not-sorted',
}
MSG_BACK = {v: k for k, v in MSG.items()}


def canon_msg(msg):
    if msg in MSG:
        return MSG[msg]
    pre = 'unexpected major revision number: '
    if msg.startswith(pre) and msg[len(pre):].isdigit() and str(int(msg[len(pre):])) == msg[len(pre):]:
        return 'major ' + msg[len(pre):]
    return '?' + msg


def canon_entries(mo):
    out = []
    for e in mo:
        if e.msgstr_plural:
            keys = sorted(e.msgstr_plural)
            if keys != list(range(len(keys))):
                return 'bad-plural-keys'
            out.append((e.msgctxt, e.msgid, e.msgid_plural, [e.msgstr_plural[i] for i in keys]))
        else:
            out.append((e.msgctxt, e.msgid, None, [e.msgstr]))
    return out


_counter = [0]


def tmp_path(suffix='.mo'):
    _counter[0] += 1
    return os.path.join(TMPDIR, '%d-%d%s' % (os.getpid(), _counter[0], suffix))


def impl_run(payload):
    """payload = (enc0 | None, data).  -> repr of ('ok', hidden, charset, entries) | ('err', kind) | ('decode',) | ('crash', type)"""
    enc0, data = payload
    setup()
    from lib import moparser
    path = tmp_path()
    with open(path, 'wb') as f:
        f.write(data)
    try:
        try:
            p = moparser.Parser(path, encoding=enc0)
        except moparser.SyntaxError as exc:
            return repr(('err', canon_msg(str(exc))))
        except UnicodeDecodeError:
            return repr(('decode',))
        except RecursionError:
            raise
        except Exception as exc:  # noqa
            return repr(('crash', type(exc).__name__))
        mo = p.parse()
        return repr(('ok', bool(mo.possible_hidden_strings), p._encoding, canon_entries(mo)))
    finally:
        os.unlink(path)


def model_line(payload):
    enc0, data = payload
    return 'morun %s %s' % ('-' if enc0 is None else common.enc_str(enc0), common.enc_bytes(data))


# ---------------------------------------------------------------- model result -> expected implementation result
def _dec_bytes(t):
    if t == '-':
        return None
    assert t.startswith('s'), t
    return bytes(int(x) for x in t[1:].split(',')) if len(t) > 1 else b''


def parse_model_variant(v):
    parts = v.split(' # ')
    status = parts[0]
    cs = _dec_bytes(parts[1][3:])
    entries = []
    for p in parts[2:]:
        tag, c, i, pl, strs = p.split(' ')
        assert tag == 'E'
        entries.append((_dec_bytes(c), _dec_bytes(i), _dec_bytes(pl), [_dec_bytes(x) for x in strs.split(';')]))
    return status, cs, entries


def expected_from_model(line):
    """apply the oracles (is_ascii_compatible_encoding, the codec) to the model's answer"""
    if ' @@ ' in line:
        v1, v0 = line.split(' @@ ')
        _, cand, _ = parse_model_variant(v1)
        try:
            name = cand.decode('ascii')
            pick = v1 if asc(name) else v0
        except UnicodeDecodeError:
            return repr(('model-asked-asc-on-non-ascii-name',))
    else:
        pick = line
    if not (pick.startswith('ok ') or pick.startswith('err ') or pick.startswith('crash ')):
        return repr(('model', pick[:200]))
    status, cs, entries = parse_model_variant(pick)
    csname = cs.decode('latin-1') if cs is not None else None
    dec = []
    for (c, i, pl, strs) in entries:
        try:   # the order of the code: msgid, msgctxt, (msgstr | msgid_plural, msgstr_plural...)
            di = i.decode(csname)
            dc = c.decode(csname) if c is not None else None
            dp = pl.decode(csname) if pl is not None else None
            ds = [s.decode(csname) for s in strs]
        except UnicodeDecodeError:
            return repr(('decode',))
        except Exception as exc:  # noqa   a codec that raises something else: reported by the oracle, expected here
            return repr(('crash', type(exc).__name__))
        dec.append((dc, di, dp, ds))
    if status.startswith('ok'):
        return repr(('ok', status == 'ok hidden=1', csname, dec))
    if status.startswith('err '):
        return repr(('err', status[4:]))
    return repr(('crash', status[6:]))


# ---------------------------------------------------------------- independent reference reader (gmo.h)
class Malformed(Exception):
    pass


def ref_read(data):
    """Straight-line reader of the format described in gettext-runtime/intl/gmo.h:
       header: magic, revision (major<<16|minor), nstrings, orig_tab_offset, trans_tab_offset, hash_tab_size,
       hash_tab_offset [, minor >= 1: n_sysdep_segments, sysdep_segments_offset, n_sysdep_strings, ...];
       string_desc {length, offset}; every string is followed by a NUL not counted in length.
       Only the fields a reader must interpret are required to be inside the file (hash and sysdep tables are unconstrained).
       -> ('bad', reason) | ('ok', hidden, [(klen, koff, vlen, voff)], [(ctxt, id, plural, [strs])] as bytes)"""
    size = len(data)
    try:
        if data[:4] == MAGIC_LE:
            order = 'little'
        elif data[:4] == MAGIC_BE:
            order = 'big'
        else:
            raise Malformed('magic')

        def word(off, what):
            if off + 4 > size:
                raise Malformed(what + ' past end of file')
            return int.from_bytes(data[off:off + 4], order)
        revision = word(4, 'header')
        major, minor = revision >> 16, revision & 0xFFFF
        if major > 1:
            raise Malformed('major revision')
        n = word(8, 'header')
        otab = word(12, 'header')
        ttab = word(16, 'header')
        hidden = minor > 1
        if minor == 1:
            hidden = word(36, 'header') > 0
        if n > 0 and (otab + 8 * n > size or ttab + 8 * n > size):     # an empty table occupies nothing
            raise Malformed('table past end of file')
        desc = []
        entries = []
        prev = None
        for i in range(n):
            kl, ko = word(otab + 8 * i, 'table'), word(otab + 8 * i + 4, 'table')
            vl, vo = word(ttab + 8 * i, 'table'), word(ttab + 8 * i + 4, 'table')
            for (ln, off) in ((kl, ko), (vl, vo)):
                if off + ln >= size:
                    raise Malformed('string past end of file')
                if data[off + ln] != 0:
                    raise Malformed('string not NUL-terminated')
            key = data[ko:ko + kl]
            val = data[vo:vo + vl]
            if key.count(0) > 1:
                raise Malformed('NULs in key')
            if key.count(0) == 0 and val.count(0) > 0:
                raise Malformed('NULs in value of a non-plural entry')
            k0 = key.split(b'\0')[0]
            if prev is not None and k0 < prev:
                raise Malformed('keys out of order')
            prev = k0
            ctxt = None
            mid = k0
            if b'\x04' in k0:
                ctxt, mid = k0.split(b'\x04', 1)        # msgctxt EOT msgid
            if key.count(0) == 1:
                entries.append((ctxt, mid, key.split(b'\0')[1], val.split(b'\0')))
            else:
                entries.append((ctxt, mid, None, [val]))
            desc.append((kl, ko, vl, vo))
        return ('ok', hidden, desc, entries)
    except Malformed as exc:
        return ('bad', str(exc))


def ref_charset(entries):
    """dcigettext.c: strstr(nullentry, "charset="), then strcspn(.., " \\t\\n"); the header is the entry with the empty key"""
    if not entries:
        return None
    c, i, pl, strs = entries[0]
    if c is not None or i != b'':
        return 'ASCII'
    h = b'\0'.join(strs)
    j = h.find(b'charset=')
    if j < 0:
        return 'ASCII'
    rest = h[j + 8:]
    k = 0
    while k < len(rest) and rest[k] not in b' \t\n':
        k += 1
    try:
        name = rest[:k].decode('ascii')
    except UnicodeDecodeError:
        return 'ASCII'
    if name == '':
        return None       # gettext would use the locale's charset here; no expectation
    return name if asc(name) else 'ASCII'


def swap_ctxt(entries):
    return [((i, c, p, s) if c is not None else (c, i, p, s)) for (c, i, p, s) in entries]


def is_d11(cs_name):
    """D11: the idna codec passes is_ascii_compatible_encoding but raises UnicodeError (not UnicodeDecodeError)"""
    import codecs
    try:
        return codecs.lookup(cs_name).name == 'idna'
    except Exception:  # noqa
        return False

"""C09: malformed MO files are rejected cleanly and never mis-read."""
import os
import struct

import common
from harness import mo_lib as ML
from harness import c08 as C08
from harness import glue_lib

TRUSTED = [
    'Coq 8.16.1 kernel (coqc, vm_compute); coqchk in thorough tier',
    'axioms: none (Print Assumptions must report "Closed under the global context" for every theorem of Props/C09.v)',
    'hand-written Gallina model Model/MoParser.v of lib/moparser.py, byte level; Spec/MoFormat.v (reading of gmo.h)',
    'extraction (ExtrOcamlBasic only) + ocaml/driver.ml (op morun)',
    'oracles applied by the harness to the model result: encodings.is_ascii_compatible_encoding, bytes.decode(charset)',
    'modelled, not verified: memoryview slicing/indexing, struct.unpack, bytes.split, the `re` search for charset=',
    'the independent reference reader tools/harness/mo_lib.py:ref_read (written from gmo.h) and the fault enumerator',
    'source translator tools/gen/gen_moparser_src.py (python ast of Parser._read_ints/_parse_entry/_parse and the magic constants -> Generated/MoParserSrc.v, fail-closed subset, rules in its docstring) with the Gallina meaning of that subset in Model/MoParserPy.v; the C09_source_tie_* theorems prove its output equal to Model/MoParser.v; Parser.__init__ (file reading, cast to bytes of length 1, creation of the MOFile) and what polib.MOEntry does with its arguments stay tied by correspondence only',
    'Checker.check glue: Model/Check.v (the loaders are an oracle with six outcome classes), theorems C09_glue_*; tied to the real method by '
    'tools/harness/glue_lib.py (scripted loader outcomes, sub-checks replaced by recorders, driver op checktop) and exercised on real files through '
    'tools/harness/impl_checker.py on a sample; Model/MoParser.v:checker_load is the same structure specialised to the MO loader model',
]
ASSUME = ['bytes of the file are < 256 (bytes_ok) in the soundness theorem',
          '"header" = the words a reader must interpret (0..4, and word 9 when minor = 1): a 20..27-byte file with nstrings = 0 is accepted '
          'by the code and by the reference reader alike',
          'memory safety of the reads is Python\'s; "reads inside the file" is proved as: every accepted descriptor region, its terminator and '
          'every table word lie inside the file']


# ---------------------------------------------------------------- fault enumeration
def seeds(ctx):
    rng = ctx.rng
    out = []
    names = ML.charset_names()
    nseed = 60 if ctx.quick() else 300
    for k in range(nseed):
        name = rng.choice(names) if k % 3 else 'UTF-8'
        cat, tcs = ML.gen_catalog(rng, name, header=rng.choice(['std', 'std', 'none', 'late']), nmax=3, contexts=(k % 2 == 0), dup=(k % 7 == 0))
        L = ML.rand_layout(rng)
        if k % 5 == 0:
            L.minor, L.sysdep = 1, rng.choice([0, 2])
        data, info = ML.serialise_catalog(cat, tcs, L, rng)
        out.append((data, info, 'generated'))
        if k % 4 == 1 and name == 'UTF-8' and len(info['terms']) > 3:
            # the same file with an undecodable byte at the end of an early string: every structural fault below is then met
            # on the second (ISO-8859-1) attempt of Checker.check, after a UnicodeDecodeError on the first
            t = info['terms'][2]
            if t > 0 and data[t - 1] not in (0, 4):
                out.append((data[:t - 1] + b'\xff' + data[t:], info, 'generated-undecodable'))
    for name, data in C08.blackbox_files():
        r = ML.ref_read(data)
        if r[0] != 'ok' or len(data) > 1500:
            out.append((data, None, 'blackbox:' + name))
            continue
        order = '>' if data[:4] == ML.MAGIC_BE else '<'
        n, otab, ttab = struct.unpack(order + '3I', data[8:20])
        words = [4, 8, 12, 16, 20, 24]
        for i in range(n):
            words += [otab + 8 * i, otab + 8 * i + 4, ttab + 8 * i, ttab + 8 * i + 4]
        terms = sorted({ko + kl for (kl, ko, vl, vo) in r[2]} | {vo + vl for (kl, ko, vl, vo) in r[2]})
        out.append((data, {'words': words, 'terms': terms, 'be': order == '>', 'n': n, 'otab': otab, 'ttab': ttab}, 'blackbox:' + name))
    return out


def faults(data, info, rng):
    """every truncation point; every header/table word x boundary values; every terminator flipped"""
    out = []
    for t in range(len(data) + 1):
        out.append((data[:t], 'truncate'))
    if info is None:
        return out
    e = '>' if info['be'] else '<'
    m = len(data)
    for off in info['words']:
        (v,) = struct.unpack(e + 'I', data[off:off + 4])
        vals = {0, 1, v - 1, v + 1, m - 1, m, m + 1, 1 << 31, (1 << 32) - 1, m - off, v + 8, v ^ 0x10000, v | 0x20000}
        for nv in sorted(vals):
            if 0 <= nv < (1 << 32) and nv != v:
                out.append((data[:off] + struct.pack(e + 'I', nv) + data[off + 4:], 'word'))
    for off in info['terms']:
        for nv in (1, 4, 255, rng.randrange(1, 256)):
            out.append((data[:off] + bytes([nv]) + data[off + 1:], 'terminator'))
    # descriptors of neighbouring entries exchanged: in the key table only, and in both tables (keys out of order)
    n, otab, ttab = info['n'], info['otab'], info['ttab']
    for i in range(n - 1):
        a, b = otab + 8 * i, otab + 8 * i + 8
        d1 = data[:a] + data[b:b + 8] + data[a:a + 8] + data[b + 8:]
        out.append((d1, 'swap'))
        if abs(otab - ttab) >= 8 * n:
            a, b = ttab + 8 * i, ttab + 8 * i + 8
            out.append((d1[:a] + d1[b:b + 8] + d1[a:a + 8] + d1[b + 8:], 'swap'))
    # a NUL or EOT written into every string position (NUL structure, ordering, context split)
    for off in range(28, m):
        if data[off] not in (0, 4) and rng.random() < 0.25:
            out.append((data[:off] + bytes([rng.choice([0, 0, 4, 255])]) + data[off + 1:], 'string-byte'))
    return out


def random_files(rng, count):
    out = []
    for _ in range(count):
        be = rng.random() < 0.5
        e = '>' if be else '<'
        size = rng.choice([0, 3, 4, 7, 8, 12, 19, 20, 27, 28, 36, 39, 40, 48, 64, 96])
        small = lambda: rng.choice([0, 0, 1, 2, 3, 8, 16, 20, 28, rng.randrange(0, 128), rng.randrange(0, 128), rng.randrange(1 << 32)])  # noqa
        rev = rng.choice([0, 0, 0, 1, 1, 2, 65536, 65537, 131072, rng.randrange(1 << 32)])
        hdr = struct.pack(e + '11I', rev, rng.choice([0, 1, 1, 2, 2, 3, rng.randrange(1 << 32)]), small(), small(), small(), small(), small(), small(),
                          rng.choice([0, 0, 1, rng.randrange(1 << 32)]), small(), small())
        body = bytearray()
        for _ in range(size):
            r = rng.random()
            body.append(0 if r < 0.45 else rng.choice(b'abc\x04\x01= charset') if r < 0.8 else rng.randrange(256))
        # small descriptor words sprinkled into the body
        for _ in range(rng.randrange(0, 6)):
            if len(body) >= 4:
                j = rng.randrange(0, len(body) - 3)
                body[j:j + 4] = struct.pack(e + 'I', rng.randrange(0, 48 + size + 4) if rng.random() < 0.9 else rng.choice([1 << 31, (1 << 32) - 1]))
        magic = ML.MAGIC_BE if be else ML.MAGIC_LE
        data = (magic + hdr + bytes(body))[:rng.choice([4 + 44 + size] * 6 + [rng.randrange(0, 4 + 44 + size + 1)])]
        if rng.random() < 0.02:
            data = bytes([data[0] ^ 1]) + data[1:] if data else data
        out.append((data, 'random'))
    return out


def hostile_codec_files(rng):
    """charset=<every spelling Python knows that passes is_ascii_compatible_encoding> with byte strings chosen against codecs"""
    import encodings as pyenc
    import pkgutil
    names = set(m for _, m, _ in pkgutil.iter_modules(pyenc.__path__)) | set(pyenc.aliases.aliases) | set(pyenc.aliases.aliases.values())
    names |= {n.upper() for n in ML.charset_names()}
    hostile = [b'xn--a', b'.xn--a.', b'xn--', b'+AGE-', b'\\u12', b'\\x', b'\\N{x}', b'a\x80', b'\xff\xfe', b'\x1b$B', b'~{', b'\x0e\x0f', b'a..b',
               b'\x81', b'\x8f\xa1', b'\xa1', b'\xfd\xff', b'\x80\x80\x80', b'\xed\xa0\x80', b'\xf4\x90\x80\x80', b'\xc0\x80']
    out = []
    for n in sorted(names):
        # every codec name, also those the tool does not accept as ASCII-compatible (it must then fall back to ASCII, not fail):
        # which names are in scope is not the tool's own predicate to decide; the full hostile list only for the accepted ones
        try:
            accepted = ML.asc(n)
        except Exception:  # noqa
            accepted = False
        for k, h in enumerate(hostile if accepted else hostile[:3]):
            kvs = [(b'', b'Content-Type: text/plain; charset=' + n.encode('ascii') + b'\n'), (b'a', h)]
            data, _ = ML.serialise(kvs, ML.Layout(be=bool(k & 1)), rng)
            out.append((data, 'codec:' + n))
    return out


# ---------------------------------------------------------------- the property's own oracle
def oracle(data, r):
    """r = implementation result (tuple).  None or (kind, what, finding)."""
    ref = ML.ref_read(data)
    if r[0] == 'crash':
        cs = None
        if ref[0] == 'ok':
            cs = ML.ref_charset(ref[3])
        if r[1] == 'UnicodeError' and cs and ML.is_d11(cs):
            return ('crash-idna', 'charset=%s: the codec raises UnicodeError, which is not a UnicodeDecodeError, and it escapes' % cs, 'D11')
        return ('crash', 'the loader raised %s' % r[1], None)
    if ref[0] == 'bad':
        if r[0] in ('err', 'decode'):
            return None
        return ('malformed-accepted', 'reference reader: %s; the loader returned a catalog' % ref[1], None)
    _, hidden, desc, entries = ref
    if r[0] == 'err':
        return ('wellformed-rejected', 'reference reader accepts the file (%d entries); the loader says %s' % (len(entries), r[1]), None)
    cs = ML.ref_charset(entries)
    if r[0] == 'decode':
        if cs is None:
            return None
        for e in entries:
            for s in [e[0], e[1], e[2]] + e[3]:
                if s is not None:
                    try:
                        s.decode(cs)
                    except UnicodeDecodeError:
                        return None
                    except Exception:  # noqa
                        return None
        return ('spurious-decode-error', 'UnicodeDecodeError although every string decodes in %s' % cs, None)
    # returned a catalog: every string must be the bytes at the declared offset/length (decoded with the charset the loader reports)
    _, got_hidden, got_cs, got = r
    if got_hidden != hidden:
        return ('hidden-flag', 'possible_hidden_strings = %r, header says %r' % (got_hidden, hidden), None)
    if len(got) != len(entries):
        return ('misread', 'number of entries %d, tables declare %d' % (len(got), len(entries)), None)
    if entries and got_cs is None:
        return ('misread', 'no charset chosen', None)

    def dec(s):
        return None if s is None else s.decode(got_cs)
    try:
        want = [(dec(c), dec(i), dec(p), [dec(s) for s in ss]) for (c, i, p, ss) in entries]
    except Exception as exc:  # noqa
        return ('misread', 'returned a catalog although %s raises %s on the stored bytes' % (got_cs, type(exc).__name__), None)
    if got == want:
        if cs is not None and entries:
            import codecs
            try:
                same = codecs.lookup(cs).name == codecs.lookup(got_cs).name
            except LookupError:
                same = False
            if not same:
                return ('charset', 'decoded with %r, the header names %r' % (got_cs, cs), None)
        return None
    if ML.swap_ctxt(got) == want:
        return ('ctxt-swapped', 'msgctxt and msgid exchanged: the returned msgid is not the string after the EOT byte', 'D18')
    return ('misread', 'a returned string is not the bytes at the declared offset and length', None)


def impl_checker_tags(data):
    """Checker.check on the file: the recorded tags, reduced to what the property speaks about"""
    ML.setup()
    from harness import impl_checker as IC
    cls = IC.get_checker_class()
    path = ML.tmp_path()
    with open(path, 'wb') as f:
        f.write(data)
    try:
        chk = cls(path, options=IC.make_options())
        try:
            chk.check()
        except RecursionError:
            raise
        except Exception as exc:  # noqa
            return repr(('crash', type(exc).__name__, [t for t, _ in chk.recorded]))
        names = [t for t, _ in chk.recorded]
        inv = [str(x[0]) for t, x in chk.recorded if t == 'invalid-mo-file']
        return repr(('tags', names, inv))
    finally:
        os.unlink(path)


def check(ctx):
    build = common.coq_build()
    aud = common.audit(ctx.id, coqchk=not ctx.quick())
    ML.setup()
    rng = ctx.rng
    cases = {}
    sds = seeds(ctx)
    for data, info, origin in sds:
        for d, kind in faults(data, info, rng):
            cases.setdefault((None, d), kind)
        cases.setdefault((None, data), 'seed')
    for d, kind in random_files(rng, 30000 if ctx.quick() else 1000000):
        cases.setdefault((None, d), kind)
    for d, kind in hostile_codec_files(rng):
        cases.setdefault((None, d), kind)
    # the second attempt of Checker.check: encoding='ISO-8859-1' given to the constructor
    for (enc0, d), kind in list(cases.items())[::(23 if ctx.quick() else 11)]:
        cases.setdefault(('ISO-8859-1', d), 'latin1:' + kind.split(':')[0])
    req = [(ML.model_line(p), p) for p in cases]
    res = common.compare_parallel('harness.mo_lib', 'impl_run', req, per_case_timeout=30)
    ctx.evaluations += len(res)
    by_payload = {}
    for (line, payload, m, r) in res:
        kind = cases[payload]
        exp = ML.expected_from_model(m)
        rt = eval(r)
        by_payload[payload] = (exp, rt)
        ctx.count('stream:' + kind.split(':')[0])
        ctx.count('outcome:' + rt[0] + ((' ' + rt[1].split(' ')[0]) if rt[0] == 'err' else ''))
        if rt[0] != 'err' or rt[1] != 'magic':
            ctx.nontriv(payload)
        if exp != r:
            ctx.disagree('morun', {'file': list(payload[1])[:600], 'size': len(payload[1]), 'encoding': payload[0], 'stream': kind}, exp[:400], r[:400])
        if payload[0] is None:
            v = oracle(payload[1], rt)
            if v is not None:
                ctx.count('oracle:' + v[0])
                ctx.fail(v[0], {'file': list(payload[1])[:800], 'size': len(payload[1]), 'stream': kind, 'got': r[:500]}, v[1], finding=v[2])
    # the glue in Checker.check, on a sample: rejected file <=> the only tag is invalid-mo-file (plus broken-encoding when the first
    # attempt failed to decode); decode error <=> broken-encoding
    first = [p for p in cases if p[0] is None]
    sample = first[::max(1, len(first) // (400 if ctx.quick() else 5000))]
    # plus the files whose first attempt ends in a decode error (the retry path), up to a cap
    dec = [p for p in first if by_payload[p][0].startswith("('decode'")]
    seen = set(sample)
    sample += [p for p in dec[::max(1, len(dec) // (600 if ctx.quick() else 6000))] if p not in seen]
    lat = common.run_driver([ML.model_line(('ISO-8859-1', p[1])) for p in sample])
    tags = common.pmap('harness.c09', 'impl_checker_tags', [p[1] for p in sample], per_case_timeout=60)
    ctx.evaluations += len(tags)
    for p, l2, t in zip(sample, lat, tags):
        exp1 = eval(by_payload[p][0])
        exp2 = eval(ML.expected_from_model(l2))
        tt = eval(t)
        info = {'file': list(p[1])[:800], 'size': len(p[1]), 'tags': t[:400]}
        ctx.count('checker:' + exp1[0])
        if tt[0] == 'crash':
            if tt[1] == 'UnicodeError' and exp1 == ('crash', 'UnicodeError'):
                ctx.fail('crash-idna', info, 'Checker.check raised UnicodeError (idna codec)', finding='D11')
            else:
                ctx.fail('checker-crash', info, 'Checker.check raised %s' % tt[1])
            continue
        names, inv = tt[1], tt[2]
        if exp1[0] == 'err':
            want = (['invalid-mo-file'], [ML.MSG_BACK.get(exp1[1], 'unexpected major revision number: ' + exp1[1][6:])])
        elif exp1[0] == 'decode' and exp2[0] == 'err':
            want = (['invalid-mo-file', 'broken-encoding'], [ML.MSG_BACK.get(exp2[1], 'unexpected major revision number: ' + exp2[1][6:])])
        else:
            want = None
        if want is not None:
            if (names, inv) != want:
                ctx.fail('glue', info, 'rejected file: expected exactly the tags %r with message %r' % want)
        else:
            if 'invalid-mo-file' in names:
                ctx.fail('glue', info, 'invalid-mo-file reported for a file the loader accepts')
            if ('broken-encoding' in names) != (exp1[0] == 'decode'):
                ctx.fail('glue', info, 'broken-encoding reported = %r, decode error = %r' % ('broken-encoding' in names, exp1[0] == 'decode'))
    # the same glue with scripted loader outcomes (every combination of first attempt / retry for the MO constructor) against
    # Model/Check.v, and the oracle: moparser.SyntaxError on the last attempt <=> exactly invalid-mo-file (+ broken-encoding), no sub-check
    glue_lib.run_stream(ctx, prefix='glue', only_mo=True)
    ctx.samples = [{'file': list(p[1])[:120], 'stream': cases[p]} for p in list(cases)[::max(1, len(cases) // 10)]][:10]
    ctx.notes.append('seed files: %d (%s)' % (len(sds), ', '.join(sorted({o for _, _, o in sds}))))
    return common.finish(
        ctx, 'proof', build, aud, TRUSTED, ASSUME,
        checker_cmd='tools/build.sh (coq_makefile + make: coqc on Props/C09.v) then coqc Audit_C09.v (Print Assumptions)',
        rule='fault enumeration, exhaustive per seed file (generated layouts + tests/blackbox_tests/*.mo): every truncation point; every 32-bit '
             'word of header and tables x {0, 1, v-1, v+1, |m|-1, |m|, |m|+1, |m|-off, v+8, v^0x10000, v|0x20000, 2^31, 2^32-1}; every terminator x '
             '{1, 4, 255, random}; NUL/EOT/0xFF written into string bytes; structured random files behind a valid magic; charset=<every '
             'ASCII-compatible codec spelling> with codec-hostile bytes; a sample repeated with encoding=ISO-8859-1. Each file: model (op morun, '
             'oracles applied) vs moparser.Parser (outcome class, message, charset, entries), and ORACLE = independent gmo.h reader: rejected with '
             'SyntaxError/UnicodeDecodeError, or every returned string is file[off:off+len] with file[off+len] == 0 for the declared off/len, and a '
             'file the reference accepts is accepted. Sample through Checker.check: tags vs expectation. non-trivial = distinct file not rejected for its magic')

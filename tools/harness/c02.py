"""C02: one well-formed line per problem; file content cannot forge or corrupt output."""
import itertools
import os
import re
import shutil
import subprocess
import sys
import unicodedata

import common
from common import enc_str, enc_bytes, dec_str
from harness import pogen

TRUSTED = [
    'Coq 8.16.1 kernel (coqc, vm_compute); coqchk in thorough tier',
    'axioms: none (Print Assumptions must report "Closed under the global context" for every theorem of Props/C02.v)',
    'hand-written Gallina model Model/Tags.v of lib/tags.py (_is_safe, _escape, repr of str/bytes, get_priority, format)',
    'tools/gen/gen_tags_src.py: fail-closed python-ast -> Gallina translator of lib/tags.py (OrderedEnum, _is_safe, _escape, safe_format, Tag.get_priority / '
    'get_colors / format) and lib/terminal.py (attr_fg, attr_reset) into Generated/TagsSrc.v on every run (rules in its docstring), with its vocabulary '
    'Model/TagsPy.v + Lib/PySrc.v; C02_source_tie_* prove the translation equal to the model; repr(), str.format, curses, bytes.decode, the regex of '
    'terminal._strip_delay stay oracles / correspondence',
    'tools/gen/gen_callsites.py: python-ast translator of every tags.safestr / tags.safe_format / .tag call site, with a WHITELIST of '
    'tool-generated expressions (listed in the generator; each kind validated dynamically on every run: all values recorded must be clean)',
    'Generated/UcdPrintable.v: str.isprintable and categories Cc/Cf/Zl/Zp/Cs of the running interpreter as range tables',
    'Generated/TagsData.v (data/tags through lib.tags), Generated/ToolMessages.v (exception message literals), regenerated every run',
    'extraction (ExtrOcamlBasic only) + ocaml/driver.ml',
    'CPython repr()/str.isprintable, the terminal SGR strings (curses), stdout encoding are modelled or outside the model',
]
ASSUME = ['the path printed in the line is the one given on the command line (not file content); the property speaks of <extra>',
          'trusted verbatim leaves (strerror, expat/moparser messages, type names, Unicode character names, location names) are clean: '
          'checked dynamically on every recorded tag, not proved']

ALPHA = ['a', ' ', "'", '"', '\\', '\n', '\x1b', '\x7f', '\x85', '\xa0', '\xad', '​', ' ', '﻿', '', '\U0010ffff', '\t', '\r', 'é', '\x00', '-', '=']


def impl_escape(payload):
    kind, val = payload
    from lib import tags
    if kind == 'safe':
        x = tags.safestr(val)
    elif kind == 'bytes':
        x = val
    else:
        x = val
    return enc_str(tags._escape(x))


def impl_strip_delay(b):
    from lib import terminal
    return enc_str(terminal._strip_delay(bytes(b)).decode('latin-1'))


def ref_padding(b):
    """independent reading of terminfo(5) padding: "$<" number ["*"]["/"] ">", number = digits | digits "." digits+ ; returns the text without it,
    or None when the text contains a "$" that does not start such a specification (outside the spec's domain)"""
    out, i = bytearray(), 0
    while i < len(b):
        if b[i] != 0x24:
            out.append(b[i])
            i += 1
            continue
        j = i + 1
        if j >= len(b) or b[j] != 0x3c:
            return None
        j += 1
        k = j
        while k < len(b) and 0x30 <= b[k] <= 0x39:
            k += 1
        ip = k - j
        fp = None
        if k < len(b) and b[k] == 0x2e:
            k += 1
            m = k
            while k < len(b) and 0x30 <= b[k] <= 0x39:
                k += 1
            fp = k - m
        if (fp is None and ip == 0) or fp == 0:
            return None
        if k < len(b) and b[k] == 0x2a:
            k += 1
        if k < len(b) and b[k] == 0x2f:
            k += 1
        if k >= len(b) or b[k] != 0x3e:
            return None
        i = k + 1
    return bytes(out)


def impl_fmtline(payload):
    sev, cer, target, name, extras = payload
    from lib import tags
    sevs = ['pedantic', 'wishlist', 'minor', 'normal', 'important', 'serious']
    cers = ['wild-guess', 'possible', 'certain']
    t = tags.Tag(name=name, severity=sevs[sev], certainty=cers[cer])
    ex = [tags.safestr(v) if k == 'safe' else v for (k, v) in extras]
    return enc_str(t.format(target, *ex))


def enc_arg(kind, val):
    return kind + ' ' + (enc_bytes(val) if kind == 'bytes' else enc_str(val))


def enc_bytes_as_str(b):
    return enc_str(bytes(b).decode('latin-1'))


def is_clean(s):
    return all(ch.isprintable() for ch in s)


LINE_RE = re.compile(r'\A([EWIP]): (.*?): ([a-z0-9-]+)(?: (.*))?\Z', re.S)


def run_catalog(payload):
    """write the catalog, run the real checker in-process, return recorded tags (with safestr-ness) and formatted lines"""
    idx, text, ext = payload
    from harness import impl_checker as IC
    from lib import tags
    d = os.path.join(common.WORK, 'c02', str(os.getpid()))
    os.makedirs(d, exist_ok=True)
    path = os.path.join(d, 'f%d.%s' % (idx, ext))
    with open(path, 'w', encoding='utf-8', errors='surrogateescape') as f:
        f.write(text)
    cls = IC.get_checker_class()
    chk = cls(path, options=IC.make_options())
    try:
        chk.check()
    except Exception as e:  # noqa
        return {'crash': type(e).__name__, 'path': path}
    out = []
    for name, extra in chk.recorded:
        if name.startswith('<UNKNOWN-TAG>'):
            out.append({'unknown': name})
            continue
        t = tags.get_tag(name)
        line = t.format(path, *extra)
        sev = ['pedantic', 'wishlist', 'minor', 'normal', 'important', 'serious'].index(t.severity.name)
        cer = ['wild-guess', 'possible', 'certain'].index(t.certainty.name)
        args = []
        for x in extra:
            if isinstance(x, tags.safestr):
                args.append(('safe', str(x)))
            elif isinstance(x, bytes):
                args.append(('bytes', x))
            else:
                args.append(('str', str(x)))
        out.append({'tag': name, 'sev': sev, 'cer': cer, 'args': args, 'line': line})
    return {'path': path, 'tags': out}


DELAYS = ['$<2>', '$<20>', '$<10/>', '$<.5*/>', '$<100*>', '$<1.5>', '$<12.3/>', '$<5*>', '$<250>']


def build_terminfo(d):
    """terminal descriptions whose colour capabilities carry terminfo(5) padding ("$<number[*][/]>", at most one decimal place);
    returns (TERMINFO directory, [TERM names]) or (None, []) without tic"""
    if not shutil.which('tic'):
        return None, []
    os.makedirs(d, exist_ok=True)
    names = []
    for k, dl in enumerate(DELAYS):
        other = DELAYS[(k + 3) % len(DELAYS)]
        name = 'verif-delay%d' % k
        src = os.path.join(d, name + '.ti')
        with open(src, 'w') as f:
            f.write('%s|padding %s,\n\tcolors#8, setaf=\\E[3%%p1%%dm%s, sgr0=\\E[0m%s, op=\\E[39;49m,\n' % (name, dl.replace(',', ''), other, dl))
        p = subprocess.run(['tic', '-o', os.path.join(d, 'db'), src], stdout=subprocess.PIPE, stderr=subprocess.PIPE)
        if p.returncode == 0:
            names.append(name)
    # 8-bit control sequences (CSI = 0x9b), as in ncurses' xterm-8bit: D30
    src = os.path.join(d, 'verif-8bit.ti')
    with open(src, 'w') as f:
        f.write('verif-8bit|8-bit controls,\n\tcolors#8, setaf=\\2333%p1%dm, sgr0=\\2330m, op=\\23339;49m,\n')
    if subprocess.run(['tic', '-o', os.path.join(d, 'db'), src], stdout=subprocess.PIPE, stderr=subprocess.PIPE).returncode == 0:
        names.append('verif-8bit')
    return os.path.join(d, 'db'), names


def cli_lines(path, colour, term=None, terminfo=None):
    env = dict(os.environ, PYTHONPATH=common.REPO, TERM=term or 'xterm')
    if terminfo:
        env['TERMINFO'] = terminfo
    cmd = [common.PY, os.path.join(common.REPO, 'i18nspector'), path]
    if colour:
        import pty
        import select
        pid, fd = pty.fork()
        if pid == 0:
            os.execve(cmd[0], cmd, env)
        data = b''
        while True:
            try:
                r, _, _ = select.select([fd], [], [], 30)
                if not r:
                    break
                chunk = os.read(fd, 65536)
            except OSError:
                break
            if not chunk:
                break
            data += chunk
        os.waitpid(pid, 0)
        os.close(fd)
        return data.decode('utf-8', 'replace').replace('\r\n', '\n')
    p = subprocess.run(cmd, env=env, stdout=subprocess.PIPE, stderr=subprocess.PIPE, timeout=60)
    return p.stdout.decode('utf-8', 'replace'), p.stderr.decode('utf-8', 'replace'), p.returncode


def cli_lines_enc(path, enc):
    env = dict(os.environ, PYTHONPATH=common.REPO, TERM='xterm', PYTHONIOENCODING=enc)
    p = subprocess.run([common.PY, os.path.join(common.REPO, 'i18nspector'), path], env=env, stdout=subprocess.PIPE, stderr=subprocess.PIPE, timeout=60)
    return p.stdout.decode(enc, 'replace'), p.stderr.decode('utf-8', 'replace'), p.returncode


def check(ctx):
    build = common.coq_build()
    aud = common.audit(ctx.id, coqchk=not ctx.quick())
    rng = ctx.rng
    # ---- (a) escape correspondence
    cases = []
    maxlen = 2 if ctx.quick() else 3
    for k in range(0, maxlen + 1):
        for seq in itertools.product(ALPHA, repeat=k):
            s = ''.join(seq)
            cases.append(('str', s))
    for k in range(0, 3):
        for seq in itertools.product([0, 9, 10, 13, 31, 32, 34, 39, 92, 97, 126, 127, 128, 255], repeat=k):
            cases.append(('bytes', bytes(seq)))
    nrand = 5000 if ctx.quick() else 100000
    for _ in range(nrand):
        n = rng.randrange(1, 12)
        r = rng.random()
        if r < 0.6:
            cases.append(('str', ''.join(rng.choice(ALPHA + ['b', 'Z', '0', '.', '!', '<', '>', '_']) for _ in range(n))))
        elif r < 0.8:
            cases.append(('str', ''.join(chr(rng.choice([rng.randrange(0, 0x300), rng.randrange(0x2000, 0x2100), rng.randrange(0xd800, 0xe000),
                                                          rng.randrange(0xfe00, 0x10000), rng.randrange(0x10000, 0x110000)])) for _ in range(n))))
        else:
            cases.append(('bytes', bytes(rng.randrange(256) for _ in range(n))))
    for c in range(0, 0x3000):
        cases.append(('str', chr(c)))
    req = [('escape ' + enc_arg(k, v), (k, v)) for (k, v) in cases]
    res = common.compare_parallel('harness.c02', 'impl_escape', req)
    ctx.evaluations += len(res)
    for (line, payload, m, r) in res:
        if m != r:
            ctx.disagree('escape', {'kind': payload[0], 'value': repr(payload[1])}, m, r)
        out = dec_str(r) if r.startswith('s') else None
        if out is not None:
            if out != (payload[1] if isinstance(payload[1], str) else None):
                ctx.nontriv(('esc', payload))
            if not is_clean(out):
                ctx.fail('escape-not-clean', {'kind': payload[0], 'value': repr(payload[1])}, 'escaped form contains a non-printable character: %r' % out)
    ctx.count('escape_cases', len(res))
    # ---- all 18 severity x certainty pairs, every tag of the registry
    sys.path.insert(0, common.REPO)
    req = []
    for sev in range(6):
        for cer in range(3):
            extras = [('str', 'x y'), ('safe', '(z)'), ('bytes', b'\xff'), ('str', '')]
            req.append(('fmtline %d %d %s %s s s %d %s' % (sev, cer, enc_str('p/a.po'), enc_str('some-tag'), len(extras),
                                                          ' '.join(enc_arg(k, v) for k, v in extras)), (sev, cer, 'p/a.po', 'some-tag', extras)))
            req.append(('fmtline %d %d %s %s s s 0' % (sev, cer, enc_str('a.po'), enc_str('t')), (sev, cer, 'a.po', 't', [])))
    res = common.compare_parallel('harness.c02', 'impl_fmtline', req, nproc=1)
    ctx.evaluations += len(res)
    want = {(0, 0): 'P', (0, 1): 'P', (0, 2): 'P', (1, 0): 'I', (1, 1): 'I', (1, 2): 'I', (2, 0): 'I', (2, 1): 'I', (2, 2): 'W',
            (3, 0): 'I', (3, 1): 'W', (3, 2): 'W', (4, 0): 'W', (4, 1): 'E', (4, 2): 'E', (5, 0): 'E', (5, 1): 'E', (5, 2): 'E'}
    for (line, payload, m, r) in res:
        if m != r:
            ctx.disagree('fmtline', {'sev': payload[0], 'cer': payload[1]}, m, r)
        if dec_str(r)[0] != want[(payload[0], payload[1])]:
            ctx.fail('priority-letter', {'severity': payload[0], 'certainty': payload[1]}, 'letter %r, the property\'s table says %r' % (dec_str(r)[0], want[(payload[0], payload[1])]))
    # ---- (a2) padding removal of lib/terminal.py: model vs terminal._strip_delay, and the terminfo(5) reading on strings made of padding and plain text
    palpha = [0x24, 0x3c, 0x3e, 0x30, 0x37, 0x2e, 0x2a, 0x2f, 0x78]
    pcases = [bytes(t) for k in range(0, 6 if ctx.quick() else 8) for t in itertools.product(palpha, repeat=k)]
    pieces = [b'\x1b[0m', b'\x1b[3%p1%dm', b'x', b'', b'$<2>', b'$<20>', b'$<100>', b'$<1.5>', b'$<.5>', b'$<12.34>', b'$<5*>', b'$<5/>', b'$<50*/>', b'$<0.1*/>',
              b'$<250/>', b'$<5/*>', b'$<>', b'$<.>', b'$<5.>', b'$<*>', b'$<5', b'$5>', b'$', b'<5>', b'$<5**>', b'$<5//>', b'$<\xb2>', b'$<5 >']
    for _ in range(3000 if ctx.quick() else 60000):
        pcases.append(b''.join(rng.choice(pieces) for _ in range(rng.randrange(1, 6))))
    pres = common.compare_parallel('harness.c02', 'impl_strip_delay', [('strip_delay ' + enc_bytes_as_str(b), list(b)) for b in pcases])
    ctx.evaluations += len(pres)
    for (line, b, m, r) in pres:
        b = bytes(b)
        if m != r:
            ctx.disagree('strip_delay', {'capability': repr(b)}, m, r)
        want = ref_padding(b)
        if want is not None:
            if b'$' in b:
                ctx.nontriv(('pad', b))
            if dec_str(r) != want.decode('latin-1'):
                ctx.fail('padding-kept', {'capability': repr(b)}, 'terminal._strip_delay gives %r, terminfo(5) padding removed gives %r' % (dec_str(r), want))
    # ---- (b) hostile catalogs through the real checker, recorded tags
    ncat = 600 if ctx.quick() else 20000
    payloads = []
    for i in range(ncat):
        cat, used = pogen.hostile_catalog(rng)
        ext = rng.choice(['po', 'po', 'po', 'pot'])
        payloads.append((i, pogen.render(cat), ext))
    # syntactically broken PO text whose error message (produced by polib) quotes file text
    nraw = 150 if ctx.quick() else 3000
    for i in range(nraw):
        t = pogen.hostile(rng).replace('\n', ' ') or 'x'
        shape = rng.randrange(6)
        body = ['#, fuzzy\n#| %s "a"\nmsgid "b"\nmsgstr "c"\n' % t, '%s "a"\nmsgstr "c"\n' % t, 'msgid "a" %s\nmsgstr "c"\n' % t,
                'msgid "a"\nmsgstr[%s] "c"\n' % t, 'msgid "a"\n%s\nmsgstr "c"\n' % t, '#~ %s "a"\n' % t][shape]
        text = 'msgid ""\nmsgstr ""\n"Content-Type: text/plain; charset=UTF-8\\n"\n\n' + body
        payloads.append((ncat + i, text, 'po'))
    shutil.rmtree(os.path.join(common.WORK, 'c02'), ignore_errors=True)
    results = common.pmap('harness.c02', 'run_catalog', payloads, per_case_timeout=120)
    lines_req = []
    ntags = 0
    kinds_seen = {}
    for (i, text, ext), r in zip(payloads, results):
        if not isinstance(r, dict):
            ctx.count('catalog:' + str(r))
            continue
        if 'crash' in r:
            ctx.count('catalog:crash:' + r['crash'])   # crashes are C01's subject; counted here, not judged
            continue
        ctx.evaluations += 1
        for t in r['tags']:
            if 'unknown' in t:
                ctx.fail('unknown-tag', {'catalog': text[:2000]}, 'attempted to emit a tag that is not in the registry: ' + t['unknown'])
                continue
            ntags += 1
            ctx.count('tag:' + t['tag'])
            for k, v in t['args']:
                if k == 'safe' and not is_clean(v):
                    ctx.fail('verbatim-not-clean', {'catalog': text[:2000], 'tag': t['tag']}, 'safestr value %r reaches the output verbatim' % v)
            line = t['line']
            mm = LINE_RE.match(line)
            bad = [ch for ch in line[len(r['path']):] if unicodedata.category(ch) in ('Cc', 'Cf', 'Zl', 'Zp', 'Cs')]
            if '\n' in line or mm is None or mm.group(3) != t['tag'] or bad:
                ctx.fail('line-grammar', {'catalog': text[:2000], 'tag': t['tag']}, 'malformed output line %r' % line)
            ctx.nontriv(('line', t['tag'], tuple(t['args'])))
            lines_req.append(('fmtline %d %d %s %s s s %d %s' % (t['sev'], t['cer'], enc_str(r['path']), enc_str(t['tag']), len(t['args']),
                                                                 ' '.join(enc_arg(k, v) for k, v in t['args'])), enc_str(line)))
    ctx.count('recorded_tags', ntags)
    model_lines = common.run_driver([l for (l, _) in lines_req]) if lines_req else []
    for (l, want_line), m in zip(lines_req, model_lines):
        if m != want_line:
            ctx.disagree('format_line', {'request': l[:300]}, m[:300], want_line[:300])
    ctx.evaluations += len(lines_req)
    # ---- (c) CLI level, colour off and on: line count = recorded tag count; strip SGR and compare
    ncli = 12 if ctx.quick() else 200
    sgr = re.compile(r'\x1b\[[0-9;]*m|\x1b\(B|\x0f')
    done = 0
    tinfo, terms = build_terminfo(os.path.join(common.WORK, 'c02', 'terminfo'))
    for (i, text, ext), r in zip(payloads, results):
        if done >= ncli:
            break
        if not isinstance(r, dict) or 'crash' in r or not r['tags'] or any('unknown' in t for t in r['tags']):
            continue
        done += 1
        out, err, rc = cli_lines(r['path'], False)
        exp = [t['line'] for t in r['tags']]
        got = out.split('\n')[:-1] if out.endswith('\n') else out.split('\n')
        if got != exp:
            ctx.fail('cli-lines', {'catalog': text[:2000]}, 'CLI printed %d lines, %d tag() calls were recorded; first difference: %r' % (
                len(got), len(exp), next(((a, b) for a, b in zip(got + [None] * 99, exp + [None] * 99) if a != b), None)))
        cout = cli_lines(r['path'], True)
        cgot = cout.split('\n')[:-1] if cout.endswith('\n') else cout.split('\n')
        stripped = [sgr.sub('', x) for x in cgot]
        if stripped != exp:
            ctx.fail('cli-colour', {'catalog': text[:2000]}, 'stripping SGR sequences from the coloured output does not give the uncoloured lines: %r' % (
                next(((a, b) for a, b in zip(stripped + [None] * 99, exp + [None] * 99) if a != b), None),))
        elif not any('\x1b[' in x for x in cgot):
            ctx.count('cli_colour_runs_without_sgr')
        # terminals whose setaf / sgr0 carry padding specifications: the padding must not reach the output
        if done <= (2 if ctx.quick() else 10):
            for term in terms:
                tout = cli_lines(r['path'], True, term=term, terminfo=tinfo)
                tgot = tout.split('\n')[:-1] if tout.endswith('\n') else tout.split('\n')
                tstripped = [sgr.sub('', x) for x in tgot]
                ctx.evaluations += 1
                ctx.count('cli_padding_runs')
                if term == 'verif-8bit':
                    tstripped = [re.sub(r'[\x9b\ufffd][0-9;]*m', '', x) for x in tstripped]
                if tstripped != exp:
                    ctx.fail('cli-colour', {'catalog': text[:2000], 'terminfo': open(os.path.join(os.path.dirname(tinfo), term + '.ti')).read()},
                             finding=('D30' if term == 'verif-8bit' and any('UnicodeDecodeError' in x for x in tgot) else None), what=
                             'terminal with padding in setaf/sgr0: stripping SGR sequences from the coloured output does not give the uncoloured lines: %r' % (
                                 next(((a, b) for a, b in zip(tstripped + [None] * 99, exp + [None] * 99) if a != b), None),))
                elif not any('\x1b[' in x for x in tgot):
                    ctx.count('cli_colour_runs_without_sgr')
        # stdout that cannot represent every character (a pipe with an ASCII / Latin-1 locale): still one line per problem, rc 0
        for enc in ('ascii', 'latin-1'):
            o2, e2, rc2 = cli_lines_enc(r['path'], enc)
            want2 = [l.encode(enc, 'backslashreplace').decode(enc) for l in exp]
            got2 = o2.split('\n')[:-1] if o2.endswith('\n') else o2.split('\n')
            if rc2 != 0 or e2 or got2 != want2:
                ctx.fail('cli-stdout-encoding', {'catalog': text[:2000], 'stdout_encoding': enc},
                         'with a %s stdout: rc=%d stderr=%r, %d lines for %d problems' % (enc, rc2, e2[-200:], len(got2), len(exp)))
        ctx.evaluations += 4
    ctx.count('cli_runs', done)
    # ---- (c2) several files at once with worker processes, one of them without any problem: still exactly one line per problem
    multi = [r['path'] for (i, text, ext), r in zip(payloads, results) if isinstance(r, dict) and 'crash' not in r and r['tags']][:3]
    clean = os.path.join(common.WORK, 'c02', 'clean.po')
    with open(clean, 'w', encoding='utf-8') as f:
        f.write('msgid ""\nmsgstr ""\n"Project-Id-Version: gizmo 1.0\\n"\n"Report-Msgid-Bugs-To: bugs@lists.gizmo-project.org\\n"\n"POT-Creation-Date: 2012-11-01 14:42+0100\\n"\n'
                '"PO-Revision-Date: 2012-11-01 14:42+0100\\n"\n"Last-Translator: Jakub Wilk <jwilk@jwilk.net>\\n"\n"Language-Team: Polish <pl@lists.gizmo-project.org>\\n"\n'
                '"Language: pl\\n"\n"MIME-Version: 1.0\\n"\n"Content-Type: text/plain; charset=UTF-8\\n"\n"Content-Transfer-Encoding: 8bit\\n"\n'
                '"Plural-Forms: nplurals=3; plural=n==1 ? 0 : n%10>=2 && n%10<=4 && (n%100<10 || n%100>=20) ? 1 : 2;\\n"\n\nmsgid "a cat"\nmsgstr "kot"\n')
    if multi:
        single = {}
        for pth in [clean] + multi:
            o, e, rc = cli_lines(pth, False)
            single[pth] = o
        if single[clean] != '':
            raise RuntimeError('harness error: the catalog meant to be problem-free is not: %r' % single[clean][:300])
        for order in ([clean] + multi, multi[:1] + [clean] + multi[1:], multi + [clean], [clean, clean] + multi[:1]):
            for j in ('2', '3'):
                env = dict(os.environ, PYTHONPATH=common.REPO, TERM='xterm')
                p = subprocess.run([common.PY, os.path.join(common.REPO, 'i18nspector'), '-j', j] + order, env=env, stdout=subprocess.PIPE, stderr=subprocess.PIPE, timeout=120)
                out = p.stdout.decode('utf-8', 'replace')
                want = ''.join(single[x] for x in order)
                ctx.evaluations += 1
                ctx.count('cli_multi_runs')
                lines_ = out.split('\n')[:-1] if out.endswith('\n') else out.split('\n')
                bad = [l for l in lines_ if not LINE_RE.match(l)] if out else []
                if bad:
                    ctx.fail('line-grammar', {'files': [os.path.basename(x) for x in order], 'options': ['-j', j]}, 'stdout line of a multi-file run is not a diagnostic line: %r' % bad[0])
                elif out != want:
                    ctx.fail('cli-lines', {'files': [os.path.basename(x) for x in order], 'options': ['-j', j]},
                             'a -j %s run over several files printed %d lines for %d problems' % (j, len(lines_) if out else 0, want.count('\n')))
                else:
                    ctx.nontriv(('multi', tuple(order), j))
    # ---- (d) packages: --unpack-deb on a .deb and a native .dsc holding hostile catalogs: nothing but diagnostic lines on stdout
    if shutil.which('dpkg-deb'):
        from harness import c17
        root = os.path.join(common.WORK, 'c02', 'pkg')
        tree = os.path.join(root, 'tree')
        os.makedirs(os.path.join(tree, 'DEBIAN'))
        os.makedirs(os.path.join(tree, 'usr/share/po'))
        with open(os.path.join(tree, 'DEBIAN', 'control'), 'w') as f:
            f.write('Package: verif-test0\nVersion: 1.0\nArchitecture: all\nMaintainer: X <x@example.org>\nDescription: test\n')
        members = []
        for (i, text, ext), r in zip(payloads, results):
            if len(members) >= (4 if ctx.quick() else 20):
                break
            if not isinstance(r, dict) or 'crash' in r or not r['tags']:
                continue
            m = 'usr/share/po/h%d%s' % (i, ext if ext.startswith('.') else '.' + ext)
            shutil.copy(r['path'], os.path.join(tree, m))
            members.append(m)
        line_re = re.compile(r'[EWIP]: [^\n]+?: ([a-z0-9-]+)( .*)?')
        exp = []
        for m in members:
            o, e, rc = c17.run_cli([m], tree)
            exp.append((m, o.split('\n')[:-1]))
        packages = []
        if subprocess.run(['dpkg-deb', '--root-owner-group', '-b', tree, os.path.join(root, 'pkg0.deb')], stdout=subprocess.PIPE, stderr=subprocess.PIPE).returncode == 0:
            packages.append('pkg0.deb')
        if shutil.which('dpkg-source'):
            packages.append(os.path.basename(c17._write_dsc(root, tree, 0)))
        for pkg in packages:
            for opts in ([], ['-j', '2']):
                o, e, rc = c17.run_cli(opts + ['--unpack-deb', pkg], root)
                got = sorted(o.split('\n')[:-1])
                want = sorted(l.replace(': %s: ' % m, ': %s/%s: ' % (pkg, m)) for m, ls in exp for l in ls)
                ctx.evaluations += 1
                ctx.count('cli_package_runs')
                bad = [l for l in got if not line_re.fullmatch(l) or not is_clean(l)]
                if bad:
                    ctx.fail('line-grammar', {'package': pkg, 'options': opts, 'members': members}, 'stdout line of an --unpack-deb run is not a diagnostic line: %r' % bad[0])
                elif got != want:
                    ctx.fail('cli-lines', {'package': pkg, 'options': opts, 'members': members}, '--unpack-deb printed %d lines for %d problems; e.g. %r' % (
                        len(got), len(want), ([l for l in got if l not in want] + [l for l in want if l not in got])[:2]))
                else:
                    ctx.nontriv(('pkg', pkg, tuple(opts)))
    shutil.rmtree(os.path.join(common.WORK, 'c02'), ignore_errors=True)
    ctx.samples = [{'escape': [k, repr(v)]} for (k, v) in cases[::max(1, len(cases) // 5)]][:5] + \
                  [{'catalog_head': p[1][-300:]} for p in payloads[:3]]
    return common.finish(
        ctx, 'proof', build, aud, TRUSTED, ASSUME,
        checker_cmd='tools/build.sh (coq_makefile + make: coqc on Props/C02.v, incl. vm_compute over the regenerated call-site / tag / Unicode tables) then coqc Audit_C02.v',
        rule='(a) model escape vs tags._escape on all strings of length <= %d over a %d-character hostile alphabet, every code point < U+3000, byte strings, random strings over all planes; '
             'all 18 severity x certainty pairs vs the property\'s letter table; (b) hostile catalogs (every free-text slot of a valid catalog filled with hostile text, 1-3 slots per catalog) '
             'through the real Checker in-process: every recorded safestr value must be printable, every formatted line must match the line grammar and equal the model\'s line; '
             '(c) the same files through the real CLI without and with a pseudo-terminal: printed lines == recorded tag calls, SGR-stripped == uncoloured, also for terminal descriptions compiled with tic whose setaf/sgr0 carry padding ($<2> .. $<250>, with * and /). '
             'non-trivial = distinct escaped value that differs from its input, or distinct (tag, arguments) line' % (maxlen, len(ALPHA)))

"""Plural-expression harness shared by C04, C05, C06 (and C07): generators, an independent
reference parser/evaluator written from plural.y / eval-plural.h, implementation runners
and canonical printers.

Harness trees: 'n' | int | ('!', a) | (op, a, b) | ('?', c, a, b)   with op in
+ - * / % < <= > >= == != && ||"""
import itertools

from common import enc_str

BINOPS = ['*', '/', '%', '+', '-', '<', '<=', '>', '>=', '==', '!=', '&&', '||']
LEVEL = {'||': 1, '&&': 2, '==': 3, '!=': 3, '<': 4, '<=': 4, '>': 4, '>=': 4, '+': 5, '-': 5, '*': 6, '/': 6, '%': 6}


# ------------------------------------------------------------------ big decimal I/O
# The harness must not touch the interpreter's int/str digit limit (the implementation's
# behaviour depends on it), so long constants are converted in chunks.
_CH = 4000


def dec_to_int(digits):
    v = 0
    for i in range(0, len(digits), _CH):
        chunk = digits[i:i + _CH]
        v = v * 10 ** len(chunk) + int(chunk)
    return v


def int_to_dec(v):
    if v < 0:
        return '-' + int_to_dec(-v)
    if v < 10 ** _CH:
        return str(v)
    parts = []
    base = 10 ** _CH
    while v >= base:
        v, r = divmod(v, base)
        parts.append(str(r).rjust(_CH, '0'))
    parts.append(str(v))
    return ''.join(reversed(parts))


# ------------------------------------------------------------------ canonical printing
def tree_str(t):
    if t == 'n':
        return 'n'
    if isinstance(t, int):
        return int_to_dec(t)
    if t[0] == '!':
        return '(! %s)' % tree_str(t[1])
    if t[0] == '?':
        return '(? %s %s %s)' % (tree_str(t[1]), tree_str(t[2]), tree_str(t[3]))
    return '(%s %s %s)' % (t[0], tree_str(t[1]), tree_str(t[2]))


def show(t, style='min', rng=None, ctx=0, side=None):
    """Concrete syntax.  style: 'full' every compound parenthesised; 'min' only the
    parentheses C precedence/associativity require; 'rand' min plus random extras."""
    sp = (lambda: rng.choice(['', ' ', '\t', '  '])) if (rng and style == 'rand') else (lambda: '')
    if t == 'n' or isinstance(t, int):
        s = str(t)
        if rng and style == 'rand' and rng.random() < 0.05 and isinstance(t, int):
            s = '0' * rng.randrange(1, 3) + s
        return s
    if t[0] == '!':
        # operand of ! is a primary: n, number, parenthesised, or another !
        a = t[1]
        inner = show(a, style, rng, 7)
        s = '!' + sp() + inner
        need = False
    elif t[0] == '?':
        # right associative, lowest precedence: condition must be level >= 1
        s = show(t[1], style, rng, 1) + sp() + '?' + sp() + show(t[2], style, rng, 0) + sp() + ':' + sp() + show(t[3], style, rng, 0)
        need = ctx > 0
    else:
        l = LEVEL[t[0]]
        s = show(t[1], style, rng, l) + sp() + t[0] + sp() + show(t[2], style, rng, l + 1)
        need = ctx > l
    if style == 'full':
        need = True
    if rng and style == 'rand' and rng.random() < 0.15:
        need = True
    return ('(' + sp() + s + sp() + ')') if need else s


# ------------------------------------------------------------------ generators
def all_trees(nops, leaves):
    """all trees with exactly nops operators (binary, !, ?:) over the given leaves"""
    if nops == 0:
        for l in leaves:
            yield l
        return
    for a in all_trees(nops - 1, leaves):
        yield ('!', a)
    for k in range(nops):
        for a in all_trees(k, leaves):
            for b in all_trees(nops - 1 - k, leaves):
                for op in BINOPS:
                    yield (op, a, b)
    if nops >= 1:
        for k1 in range(nops):
            for k2 in range(nops - k1):
                k3 = nops - 1 - k1 - k2
                for c in all_trees(k1, leaves):
                    for a in all_trees(k2, leaves):
                        for b in all_trees(k3, leaves):
                            yield ('?', c, a, b)


def rand_tree(rng, depth, leaves, pvar=0.4):
    if depth <= 0 or rng.random() < 0.25:
        return 'n' if rng.random() < pvar else rng.choice(leaves)
    r = rng.random()
    if r < 0.1:
        return ('!', rand_tree(rng, depth - 1, leaves, pvar))
    if r < 0.22:
        return ('?', rand_tree(rng, depth - 1, leaves, pvar), rand_tree(rng, depth - 1, leaves, pvar), rand_tree(rng, depth - 1, leaves, pvar))
    op = rng.choice(BINOPS)
    if op == '%' and rng.random() < 0.5:
        return ('%', 'n', rng.choice(leaves))
    if op in ('<', '<=', '>', '>=', '==', '!=') and rng.random() < 0.5:
        return (op, 'n', rng.choice(leaves))
    return (op, rand_tree(rng, depth - 1, leaves, pvar), rand_tree(rng, depth - 1, leaves, pvar))


TOKEN_SHAPES = ['?', ':', '||', '&&', '==', '!=', '<', '<=', '>', '>=', '+', '-', '*', '/', '%', '!', '(', ')', 'n', '7']


def token_sequences(maxlen, shapes=TOKEN_SHAPES):
    for k in range(0, maxlen + 1):
        for seq in itertools.product(shapes, repeat=k):
            yield ' '.join(seq)


# ------------------------------------------------------------------ reference (oracle)
class RefSyntaxError(Exception):
    pass


def ref_lex(s):
    """yylex of plural.y (without the ';' / newline terminators, which cannot occur here)"""
    out = []
    i = 0
    while i < len(s):
        c = s[i]
        if c in ' \t':
            i += 1
            continue
        if c in '0123456789':          # ASCII digits only
            j = i
            while j < len(s) and s[j] in '0123456789':
                j += 1
            out.append(('num', dec_to_int(s[i:j])))
            i = j
            continue
        two = s[i:i + 2]
        if two in ('==', '!=', '&&', '||', '<=', '>='):
            out.append((two,))
            i += 2
            continue
        if c in '!<>*/%+-n?:()':
            out.append((c,))
            i += 1
            continue
        raise RefSyntaxError('lex %r' % c)
    return out


class _P:
    """stratified grammar, one function per precedence level of plural.y"""

    def __init__(self, toks):
        self.t = toks
        self.i = 0

    def peek(self):
        return self.t[self.i][0] if self.i < len(self.t) else None

    def cond(self):
        c = self.lor()
        if self.peek() == '?':
            self.i += 1
            a = self.cond()
            if self.peek() != ':':
                raise RefSyntaxError
            self.i += 1
            b = self.cond()
            return ('?', c, a, b)
        return c

    def _left(self, ops, sub):
        x = sub()
        while self.peek() in ops:
            op = self.peek()
            self.i += 1
            y = sub()
            x = (op, x, y)
        return x

    def lor(self):
        return self._left(('||',), self.land)

    def land(self):
        return self._left(('&&',), self.eq)

    def eq(self):
        return self._left(('==', '!='), self.rel)

    def rel(self):
        return self._left(('<', '<=', '>', '>='), self.add)

    def add(self):
        return self._left(('+', '-'), self.mul)

    def mul(self):
        return self._left(('*', '/', '%'), self.unary)

    def unary(self):
        depth = 0
        while self.peek() == '!':
            self.i += 1
            depth += 1
        p = self.peek()
        if p == 'n':
            self.i += 1
            x = 'n'
        elif p == 'num':
            x = self.t[self.i][1]
            self.i += 1
        elif p == '(':
            self.i += 1
            x = self.cond()
            if self.peek() != ')':
                raise RefSyntaxError
            self.i += 1
        else:
            raise RefSyntaxError
        for _ in range(depth):
            x = ('!', x)
        return x


def ref_parse(s):
    import sys
    toks = ref_lex(s)
    p = _P(toks)
    old = sys.getrecursionlimit()
    sys.setrecursionlimit(max(old, 20000))
    try:
        t = p.cond()
    finally:
        sys.setrecursionlimit(old)
    if p.i != len(toks):
        raise RefSyntaxError
    return t


def ref_parse_str(s):
    import sys
    old = sys.getrecursionlimit()
    sys.setrecursionlimit(max(old, 50000))
    try:
        return 'ok ' + tree_str(ref_parse(s))
    except RefSyntaxError:
        return 'err syntax'
    finally:
        sys.setrecursionlimit(old)


class RefFail(Exception):
    pass


def ref_eval(t, n, M):
    """eval-plural.h over unbounded ints; RefFail('overflow'|'divzero') as soon as an
    evaluated value leaves [0, M) or an executed divisor is 0"""
    def chk(v):
        if v < 0 or v >= M:
            raise RefFail('overflow')
        return v
    # iterative post-order would be safer for deep trees; recursion is enough for generated ones
    if t == 'n':
        return chk(n)
    if isinstance(t, int):
        return chk(t)
    op = t[0]
    if op == '!':
        return int(ref_eval(t[1], n, M) == 0)
    if op == '?':
        return ref_eval(t[2], n, M) if ref_eval(t[1], n, M) != 0 else ref_eval(t[3], n, M)
    if op == '&&':
        return int(ref_eval(t[1], n, M) != 0 and ref_eval(t[2], n, M) != 0)
    if op == '||':
        return int(ref_eval(t[1], n, M) != 0 or ref_eval(t[2], n, M) != 0)
    x = ref_eval(t[1], n, M)
    y = ref_eval(t[2], n, M)
    if op == '+':
        return chk(x + y)
    if op == '-':
        return chk(x - y)
    if op == '*':
        return chk(x * y)
    if op in '/%':
        if y == 0:
            raise RefFail('divzero')
        q = 0
        # C unsigned division, computed without Python's // on purpose
        q, r = divmod(x, y)
        return q if op == '/' else r
    return int({'<': x < y, '<=': x <= y, '>': x > y, '>=': x >= y, '==': x == y, '!=': x != y}[op])


def ref_eval_str(t, n, M):
    try:
        return 'ok %d' % ref_eval(t, n, M)
    except RefFail as e:
        return 'err ' + e.args[0]


# ------------------------------------------------------------------ implementation runners
_OPS = {'Add': '+', 'Sub': '-', 'Mult': '*', 'Div': '/', 'Mod': '%', 'Lt': '<', 'LtE': '<=', 'Gt': '>', 'GtE': '>=',
        'Eq': '==', 'NotEq': '!=', 'And': '&&', 'Or': '||'}


def ast_str(node):
    import ast
    out = []
    # iterative to survive deep trees
    stack = [node]
    while stack:
        x = stack.pop()
        if isinstance(x, str):
            out.append(x)
            continue
        if isinstance(x, ast.Expr):
            stack.append(x.value)
        elif isinstance(x, ast.Name):
            out.append(x.id)
        elif isinstance(x, ast.Constant):
            out.append(int_to_dec(x.value))
        elif isinstance(x, ast.UnaryOp):
            out.append('(! ')
            stack.extend([')', x.operand])
        elif isinstance(x, ast.BinOp):
            out.append('(%s ' % _OPS[type(x.op).__name__])
            stack.extend([')', x.right, ' ', x.left])
        elif isinstance(x, ast.Compare):
            if len(x.ops) != 1:
                out.append('(chain ')
            else:
                out.append('(%s ' % _OPS[type(x.ops[0]).__name__])
            stack.extend([')', x.comparators[0], ' ', x.left])
        elif isinstance(x, ast.BoolOp):
            out.append('(%s' % _OPS[type(x.op).__name__])
            stack.append(')')
            for v in reversed(x.values):
                stack.extend([v, ' '])
        elif isinstance(x, ast.IfExp):
            out.append('(? ')
            stack.extend([')', x.orelse, ' ', x.body, ' ', x.test])
        else:
            out.append('<%s>' % type(x).__name__)
    return ''.join(out)


def _parse(s):
    from lib import gettext
    try:
        return gettext.parse_plural_expression(s), None
    except gettext.PluralExpressionSyntaxError:
        return None, 'err syntax'
    except RecursionError:
        return None, 'crash RecursionError'
    except Exception as e:  # noqa
        return None, 'crash ' + type(e).__name__


def impl_parse(s):
    e, err = _parse(s)
    if err:
        return err
    return 'ok ' + ast_str(e._node)


def impl_eval(payload):
    bits, n, s = payload
    e, err = _parse(s)
    if err:
        return err
    try:
        return 'ok %d' % e(n, bits=bits)
    except OverflowError:
        return 'err overflow'
    except ZeroDivisionError:
        return 'err divzero'
    except RecursionError:
        return 'crash RecursionError'
    except Exception as ex:  # noqa
        return 'crash ' + type(ex).__name__


def _pair(v):
    if v is None:
        return 'ok none'
    a, b = v
    return 'ok %d %d' % (int(a), int(b))


def impl_codomain(payload):
    bits, s = payload
    e, err = _parse(s)
    if err:
        return err
    try:
        return _pair(e.codomain(bits=bits))
    except RecursionError:
        return 'crash RecursionError'
    except Exception as ex:  # noqa
        return 'crash ' + type(ex).__name__


def impl_period(payload):
    bits, s = payload
    e, err = _parse(s)
    if err:
        return err
    try:
        return _pair(e.period(bits=bits))
    except RecursionError:
        return 'crash RecursionError'
    except Exception as ex:  # noqa
        return 'crash ' + type(ex).__name__


def maxdigits():
    import sys
    import lib  # noqa
    return sys.get_int_max_str_digits() if hasattr(sys, 'get_int_max_str_digits') else 0


def line_parse(s, maxd):
    return 'parse %d %s' % (maxd, enc_str(s))


def line_eval(bits, n, s, maxd):
    return 'eval %d %d %d %s' % (maxd, 1 << bits, n, enc_str(s))


def line_codomain(bits, s, maxd):
    return 'codomain %d %d %s' % (maxd, 1 << bits, enc_str(s))


def line_period(bits, s, maxd):
    return 'period %d %d %s' % (maxd, 1 << bits, enc_str(s))


# ------------------------------------------------------------------ brute-force oracles on the implementation
def impl_outcomes(payload):
    """outcome of the real evaluator at every n < 2^bits (bits small): list of ints or 'E'"""
    bits, s = payload
    e, err = _parse(s)
    if err:
        return err
    out = []
    for n in range(1 << bits):
        try:
            out.append(e(n, bits=bits))
        except (OverflowError, ZeroDivisionError):
            out.append('E')
    return out


def oracle_codomain(payload):
    """C05 on the implementation by brute force.  Returns None if it holds, else a description."""
    bits, s = payload
    e, err = _parse(s)
    if err:
        return None
    try:
        cd = e.codomain(bits=bits)
    except Exception as ex:  # noqa
        return 'codomain raised %s' % type(ex).__name__
    for n in range(1 << bits):
        try:
            v = e(n, bits=bits)
        except (OverflowError, ZeroDivisionError):
            continue
        if cd is None:
            return 'codomain is None but f(%d) = %d succeeds (bits=%d)' % (n, v, bits)
        if not (cd[0] <= v <= cd[1]):
            return 'codomain (%d, %d) but f(%d) = %d (bits=%d)' % (int(cd[0]), int(cd[1]), n, v, bits)
    return None


def _boundary_ns(bits):
    M = 1 << bits
    ns = set(range(0, 12)) | {M - 1, M - 2, M - 3, M // 2, M // 2 - 1, M // 3, M // 3 + 1}
    for b in (8, 16, 31, 32, 33, 40, 63, 64):
        if b <= bits:
            for d in (-2, -1, 0, 1, 2):
                ns.add((1 << b) + d)
    return sorted(n for n in ns if 0 <= n < M)


def oracle_codomain_sampled(payload):
    """C05 on the implementation at boundary values of n (for widths too large to enumerate)"""
    bits, s = payload
    e, err = _parse(s)
    if err:
        return None
    try:
        cd = e.codomain(bits=bits)
    except Exception as ex:  # noqa
        return 'codomain raised %s' % type(ex).__name__
    for n in _boundary_ns(bits):
        try:
            v = e(n, bits=bits)
        except (OverflowError, ZeroDivisionError):
            continue
        if cd is None:
            return 'codomain is None but f(%d) = %d succeeds (bits=%d)' % (n, v, bits)
        if not (cd[0] <= v <= cd[1]):
            return 'codomain (%d, %d) but f(%d) = %d (bits=%d)' % (int(cd[0]), int(cd[1]), n, v, bits)
    return None


def oracle_period_sampled(payload):
    """C06 on the implementation around boundary values (for widths too large to enumerate)"""
    bits, s = payload
    e, err = _parse(s)
    if err:
        return None
    try:
        pr = e.period(bits=bits)
    except Exception as ex:  # noqa
        return 'period raised %s' % type(ex).__name__
    if pr is None:
        return None
    o, p = pr
    if p < 1 or o < 0:
        return 'period (%d, %d) is not a period' % (o, p)
    M = 1 << bits

    def out(n):
        try:
            return e(n, bits=bits)
        except (OverflowError, ZeroDivisionError):
            return 'E'
    cand = set()
    for n in _boundary_ns(bits):
        for d in (0, -p, -2 * p):
            cand.add(n + d)
    cand |= set(range(o, o + 300))
    for n in sorted(cand):
        if o <= n and n + p < M and out(n) != out(n + p):
            return 'period (%d, %d) but outcome(%d) = %s and outcome(%d) = %s (bits=%d)' % (o, p, n, out(n), n + p, out(n + p), bits)
    return None


def oracle_period(payload):
    """C06 on the implementation by brute force."""
    bits, s = payload
    e, err = _parse(s)
    if err:
        return None
    try:
        pr = e.period(bits=bits)
    except Exception as ex:  # noqa
        return 'period raised %s' % type(ex).__name__
    if pr is None:
        return None
    o, p = pr
    if p < 1 or o < 0:
        return 'period (%d, %d) is not a period' % (o, p)
    M = 1 << bits
    outs = {}

    def out(n):
        if n not in outs:
            try:
                outs[n] = e(n, bits=bits)
            except (OverflowError, ZeroDivisionError):
                outs[n] = 'E'
        return outs[n]
    for n in range(o, M - p):
        if out(n) != out(n + p):
            return 'period (%d, %d) but outcome(%d) = %s and outcome(%d) = %s (bits=%d)' % (o, p, n, out(n), n + p, out(n + p), bits)
    return None


# ------------------------------------------------------------------ known finding D12 (recursion depth)
DEEP = 300


def tree_depth(t):
    best = 0
    stack = [(t, 1)]
    while stack:
        x, d = stack.pop()
        if d > best:
            best = d
        if isinstance(x, tuple):
            for c in x[1:]:
                stack.append((c, d + 1))
    return best


def is_deep(s):
    """structural predicate of known finding D12: the expression's tree is at least DEEP levels deep"""
    try:
        return tree_depth(ref_parse(s)) >= DEEP
    except RefSyntaxError:
        return False
    except RecursionError:
        return True


def deep_family(depth):
    return ['!' * depth + 'n', 'n' + '+1' * depth, 'n?' * depth + '1' + ':1' * depth, '(' * depth + 'n' + ')' * depth]


def recursion_finding(ctx, s, r, where):
    """True if r is the RecursionError of D12 on a deep expression (recorded as such)"""
    if r == 'crash RecursionError' and is_deep(s):
        ctx.fail('recursion', {'expr_prefix': s[:40], 'length': len(s), 'where': where},
                 'RecursionError in %s on an expression nested >= %d levels' % (where, DEEP), 'D12')
        return True
    return False

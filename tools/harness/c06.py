"""C06: periodicity analysis of plural expressions is sound."""
import json
import os

import common
from harness import intexpr_lib as L
from harness import intexpr_streams as S

TRUSTED = [
    'Coq 8.16.1 kernel (coqc, vm_compute); coqchk in thorough tier',
    'axioms: none (Print Assumptions must report "Closed under the global context" for every theorem of Props/C06.v)',
    'hand-written Gallina model Model/IntExpr.v (period, pyeval, lex, pgo) of lib/intexpr.py PeriodEvaluator/Evaluator/lexer/parser',
    'source translator tools/gen/gen_intexpr_src.py (python ast -> Gallina, rules in its docstring) + Lib/PySrc.v: Generated/IntExprSrc.v is trusted to mean what the methods of class PeriodEvaluator mean; the hand-written mirror of the getattr dispatch and gcd = Z.gcd are tied by correspondence only',
    'extraction (ExtrOcamlBasic only) + ocaml/driver.ml + zarith for decimal I/O',
    'correspondence harness tools/harness/intexpr_lib.py: agreement on explored inputs is evidence, not proof, that the model is the code',
    'rply (LALR tables, lexer) and CPython int arithmetic are modelled, not verified',
]
ASSUME = ['the parser only builds binary BoolOp nodes and single-operator Compare nodes (checked on every parsed case)',
          'expressions are those the plural parser can build (constants >= 0)']


def corpus():
    p = os.path.join(common.VERIF, 'corpus', 'C06')
    out = list(S.REGISTRY_LIKE)
    if os.path.isdir(p):
        for f in sorted(os.listdir(p)):
            out.extend(json.load(open(os.path.join(p, f))))
    return out


def check(ctx):
    build = common.coq_build()
    aud = common.audit(ctx.id, coqchk=not ctx.quick())
    maxd = L.maxdigits()
    cases = S.analysis_cases(ctx, corpus())
    cases += [(32, s, 'deep') for d in (50, 600) for s in L.deep_family(d)]
    req = [(L.line_period(b, s, maxd), (b, s)) for (b, s, _) in cases]
    res = common.compare_parallel('harness.intexpr_lib', 'impl_period', req)
    ctx.evaluations += len(res)
    suspicious = []
    for (line, payload, m, r) in res:
        kind = r.split(' ')[0] + (' none' if r == 'ok none' else '')
        ctx.count('period:' + kind)
        if L.recursion_finding(ctx, payload[1], r, 'analysis'):
            continue
        if m != r:
            ctx.disagree('period', {'bits': payload[0], 'expr': payload[1]}, m, r)
            suspicious.append(payload)
        if r.startswith('ok') and r != 'ok none':
            ctx.nontriv(payload)
    # the property's own oracle on the implementation: brute force over n < 2^bits
    maxb = 6 if ctx.quick() else 8
    todo = [(b, s) for (b, s, _) in cases if b <= maxb]
    # neighbourhood of any disagreement: the same expression at every small width
    for (b, s) in suspicious:
        for bb in range(1, 11):
            todo.append((bb, s))
    big = [(b, s) for (b, s, _) in cases if b > maxb]
    verdicts = common.pmap('harness.intexpr_lib', 'oracle_period', todo) + common.pmap('harness.intexpr_lib', 'oracle_period_sampled', big)
    ctx.count('sampled_large_width_pairs', len(big))
    todo = todo + big
    ctx.evaluations += sum((1 << b) if b <= 10 else 60 for (b, _) in todo)
    ctx.count('bruteforce_expr_width_pairs', len(todo) - len(big))
    for (b, s), v in zip(todo, verdicts):
        if v is not None:
            finding = None
            if 'raised RecursionError' in str(v) and L.is_deep(s):
                continue
            ctx.fail('period-unsound' if 'raised' not in str(v) else 'period-crash', {'bits': b, 'expr': s}, v, finding, replay=('harness.intexpr_lib', 'oracle_period' if b <= 10 else 'oracle_period_sampled', [b, s]))
    ctx.samples = [{'bits': b, 'expr': s, 'origin': o} for (b, s, o) in cases[::max(1, len(cases) // 10)]][:10]
    return common.finish(
        ctx, 'proof', build, aud, TRUSTED, ASSUME,
        checker_cmd='tools/build.sh (coq_makefile + make: coqc on Props/C06.v) then coqc Audit_C06.v (Print Assumptions)',
        rule='model period vs Expression.period(bits=b) on: corpus, every expression with <= 1 operator over leaves {n,0,1,2,3,M-1,M} '
             'for b in 1..4, two-operator expressions (sampled in quick, exhaustive for b<=3 in thorough), seeded random expressions of depth <= 6 '
             'at b in {1..8,32}; then brute-force outcome(n) == outcome(n+P) for every n in [O, 2^b - P) with the real evaluator (b <= %d). '
             'non-trivial = distinct (bits, expression) for which a period was returned' % maxb)

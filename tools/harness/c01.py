"""C01: every input file is handled without crash, hang or abnormal exit."""
import concurrent.futures
import json
import os
import re
import shutil
import subprocess
import time

import common
from harness import pogen
from harness import glue_lib

TRUSTED = [
    'Coq 8.16.1 kernel (coqc, vm_compute); coqchk in thorough tier',
    'axioms: none (Print Assumptions must report "Closed under the global context" for every theorem of Props/C01.v)',
    'Props/C01.v collects the no-crash / totality theorems of the component models (C02, C04-C07, C09, C11-C16, C18-C20 as available) and the handler table',
    'the component models are hand-written and tied to the code by their own correspondence checks',
    'tools/gen/gen_plurals_src.py (source translation of Checker.check_plurals / gettext.parse_plural_forms -> Generated/PluralsSrc.v, see C07): C01_source_tie_check_plurals_total is about that translation',
    'tools/gen/gen_raisesites.py (python ast of /repo/lib -> Generated/RaiseSites.v): its call resolution (simple name / attribute name within lib/, per-class self dispatch, '
    'union over classes for unknown receivers, same-module-first), its list of implicit raisers outside lib/ (IMPLICIT, DIVISION_FILES, EXTERNAL_ENTRY for polib, the codec registry), '
    'and its three reviewed tables: DEAD_RAISES (defensive raises excluded from the summaries), WHITELIST (rows deliberately left uncaught), CALLEE_OVERRIDES',
    'C01_every_own_error_is_caught is about that table: exceptions raised by code outside lib/ other than the listed implicit raisers (e.g. UnicodeError from the idna codec, D11; '
    'RecursionError, D12; KeyError / IndexError / TypeError from subscripts and operators) are not in it; notes/C01.md lists what it does not establish',
    'runtime behaviour (exit status, stderr, wall time, recursion limit, regex backtracking, memory) is explored through the real CLI, not modelled',
    'Model/Check.v (hand-written model of the body of Checker.check: stat guard, dispatch, two attempts, except/finally clauses, ctx, order of the sub-checks); '
    'its inputs are oracles: the outcome of os.stat and of polib.pofile / polib.mofile (the six outcome classes of load_result), str.upper (ASCII instance in the driver); '
    'tied to the real method by tools/harness/glue_lib.py: os.stat / polib.pofile / polib.mofile stubbed by scripted outcomes, the nine check_* methods replaced by recorders, '
    'driver op checktop; the independent oracle of glue_lib.py (reference rule for the arguments of syntax-error-in-po-file written with string operations)',
]
ASSUME = ['time bounds are measured on this machine under a per-run cap; "low-degree polynomial" is tested as t(2n)/t(n) below 4.5 (quadratic plus noise) on pumped families']

LINE_RE = re.compile(r'\A[EWIP]: .+?: [a-z0-9-]+(?: .*)?\Z')
TIME_CAP = 15.0     # seconds for any single generated file (largest is ~200 kB)


def run_cli(args, cwd, timeout, seed=0):
    env = dict(os.environ)
    env.update({'PYTHONPATH': common.REPO, 'PYTHONHASHSEED': str(seed), 'LC_ALL': 'C.UTF-8'})
    env.pop('PYTHONWARNINGS', None)       # the tool must be silent by itself
    t0 = time.time()
    try:
        p = subprocess.run([common.PY, os.path.join(common.REPO, 'i18nspector')] + args, cwd=cwd, env=env,
                           stdout=subprocess.PIPE, stderr=subprocess.PIPE, timeout=timeout)
        return p.stdout, p.stderr, p.returncode, time.time() - t0
    except subprocess.TimeoutExpired as e:
        return e.stdout or b'', b'TIMEOUT', -999, time.time() - t0


# ---------------------------------------------------------------- generators
def w(d, name, data):
    mode = 'wb' if isinstance(data, bytes) else 'w'
    kw = {} if isinstance(data, bytes) else {'encoding': 'utf-8', 'errors': 'surrogateescape'}
    with open(os.path.join(d, name), mode, **kw) as f:
        f.write(data)
    return name


COMPONENT_STRINGS = {
    'Plural-Forms': ['nplurals=1; plural=n/0;', 'nplurals=2; plural=n%0;', 'nplurals=2; plural=4294967296*n;', 'nplurals=9' * 3 + '; plural=n;',
                     'nplurals=2; plural=(n;', 'nplurals=2; plural=n n;', 'nplurals=2; plural=' + '9' * 5000 + ';', 'nplurals=' + '9' * 5000 + '; plural=0;',
                     'nplurals=2; plural=n ? 1 : ;', 'nplurals=0; plural=0;', 'nplurals=2; plural=n==1 ? 0 : n==2 ? 1 : 2;', 'nplurals=3; plural=٣;',
                     'nplurals=1; plural=1/(n-1);', 'nplurals=2; plural=n - 1;', 'nplurals=200; plural=n%200;', 'nplurals=2; plural=n%199==0;'],
    'PO-Revision-Date': ['2012-13-01 14:42+0100', '2012-02-30 14:42+0100', '0000-01-01 00:00+0000', '9999-12-31 23:59+1400', '2012-11-01 24:00+0100',
                         '2012-11-01 14:42+2400', '2012-11-01 14:42 CEST', '2012-11-01 14:42 EST', '2012-11-01T14:42', '2012-11-01 14:42+01:00',
                         '2012-11-01 14:42GMT+0100', 'YEAR-MO-DA HO:MI+ZONE', '2012-11-01 14:42\u00a0+0100', '٢٠١٢-١١-٠١ 14:42+0100', '2012-11-01 14:42-0000',
                         '2012-11-01 14:42+9999', '1-1-1 1:1+1', '0001-01-01 00:00+0100', '0001-01-01 00:00+1400', '9999-12-31 23:59-0100', '9999-12-31 23:59-1200'],
    'Language': ['pl\n', 'pl_PL.UTF-8@euro', 'xx', 'pol', 'zzz', 'Polish', 'pl_XX', 'p', 'pl-PL', 'PL', 'pl_pl', 'sr@latin', 'ca@valencia', 'pl.' + 'a' * 3000,
                 'English (British)', 'en_GB;en_US', 'é', ''],
    'Content-Type': ['text/plain; charset=' + c for c in ['idna', 'punycode', 'rot13', 'rot_13', 'base64', 'hex', 'uu', 'zlib', 'bz2', 'quopri', 'utf-16', 'utf-32', 'utf-7',
                                                           'raw_unicode_escape', 'unicode_escape', 'undefined', 'mbcs', 'oem', 'KOI8-T', 'KOI8-RU', 'VISCII',
                                                           'GEORGIAN-PS', 'EUC-TW', 'UTF-8\x00', 'x' * 3000, 'ascii', 'CHARSET', 'cp037', 'utf_8_sig', 'latin-1', 'hz',
                                                           'iso2022_jp', 'big5hkscs', 'shift_jisx0213', 'cp65001', 'string_escape', 'palmos', 'ptcp154', 'tis_620']]
                    + ['text/html; charset=UTF-8', 'text/plain', 'text/plain;charset=UTF-8', 'charset=UTF-8', 'text/plain; charset=', 'text/plain; charset=UTF-8; x=y'],
    'Report-Msgid-Bugs-To': ['http://[foo', 'http://[::1', 'mailto:x', 'x@', '@y', 'a b <c@d>', 'http://example.com/' + 'a' * 5000, 'user@localhost', 'user@example.org',
                             '<' * 100, '//x', 'HTTP://X', 'a@b.test', '"x" <a@[1.2.3.4]>', 'ftp://[v1.x]/'],
    'Last-Translator': ['x', '<>', 'a <b>', 'Ü <ü@ü.ü>', 'FULL NAME <EMAIL@ADDRESS>', 'a@b', '"' * 99, 'A <a@b.invalid>', 'A <a@b.c>, B <d@e.f>'],
    'Project-Id-Version': ['PACKAGE VERSION', 'x', '1.0', '', 'a' * 5000, 'foo 1', 'foo\tbar'],
}

FORMAT_STRINGS = {
    'c-format': ['%', '%%', '%5$d', '%0$d', '%4097$d', '%1$d %3$d', '%d %1$d', '%' + '9' * 5000 + 'd', '%.' + '9' * 5000 + 'd', '%2147483648d', '%*d', '%*1$d %2$d',
                 '%ll', '%hhhd', '%#c', '%<PRId64>', '%<PRIx' + '9' * 50 + '>', '%lc', '%C', '%S', '%m', '%n', '%I64d', '%\'d', '%1$*2$.*3$d', '% d', '%-+ #0d'],
    'python-format': ['%(', '%(a', '%(a)', '%(a)s %s', '%(a)s %(a)d', '%((a))s', '%)s', '%*s', '%.*f', '%' + '9' * 5000 + 'd', '%(a)' + '9' * 5000 + 'd',
                      '%2147483648d', '%ld', '%hs', '%#s', '%z', '%٣d', '%(٣)s', '%(a\n)s', '%()s', '%%(a)s', '% % s', '%.s'],
    'python-brace-format': ['{', '}', '{{', '{}}', '{0', '{²}', '{٣}', '{0!x}', '{0!}', '{0:{1}}', '{0:{1:{2}}}', '{a.b[c]}', '{a[}', '{0} {}', '{} {0}',
                            '{' + '9' * 5000 + '}', '{0:' + '9' * 5000 + '}', '{0:.' + '9' * 5000 + '}', '{:' + 'a' * 40, '{' * 50, '{a[' + 'x' * 60, '{0!' + 's' * 60,
                            '{0:d} {0:s}', '{0:n} {0:s}', '{:>>5}', '{:=+#05,.3f}', '{0:%}', '{a!r:>{w}}', '{0:' + '{' * 30],
    'perl-brace-format': ['{', '{}', '{1}', '{a b}', '{a}}', '{é}', '{_}', '{a' + 'b' * 5000 + '}', '{' * 5000, '{a}{', 'x{'],
}

VALID_FORMATS = {
    'c-format': [['%d', '%s', '%d'], ['%1$s', '%2$d', '%3$d'], ['%ld', '%d', '%u']],
    'python-format': [['%(a)s', '%(b)d', '%(c)d'], ['%s', '%d', '%d'], ['%(n)d', '%(m)d', '%(k)s']],
    'python-brace-format': [['{a}', '{b:d}', '{c:d}'], ['{0}', '{1:d}', '{2:d}'], ['{n:d}', '{m:d}', '{k}']],
    'perl-brace-format': [['{a}', '{b}', '{c}']],
}


def gen_files(ctx, d):
    rng = ctx.rng
    files = []   # (name, family)
    n_host = 150 if ctx.quick() else 3000
    for i in range(n_host):
        cat, used = pogen.hostile_catalog(rng)
        files.append((w(d, 'h%d.%s' % (i, rng.choice(['po', 'po', 'pot'])), pogen.render(cat)), 'hostile-slots'))
    # component malformed streams embedded in the slot that reaches them
    i = 0
    for field, vals in COMPONENT_STRINGS.items():
        for v in vals:
            cat = pogen.base_catalog()
            pogen.set_header(cat, field, v)
            if field == 'Content-Type':
                cat['entries'].append({'msgid': 'tricky', 'msgstr': '.xn--a. +AGE- \\x80 =?x?= aGk= \x1b$B'})
            files.append((w(d, 'c%d.po' % i, pogen.render(cat)), 'component:' + field))
            i += 1
    # a header field given twice with different values (some checks return early on that), next to the flagged plural entry of the base catalog
    for field in COMPONENT_STRINGS:
        vals = COMPONENT_STRINGS[field]
        for a, b in [(vals[0], vals[1]), (vals[-1], vals[0])]:
            cat = pogen.base_catalog()
            orig = dict(cat['header']).get(field, '')
            cat['header'] = [(k, v) for (k, v) in cat['header'] if k != field] + [(field, orig), (field, a.replace('\n', ' '))] + ([(field, b.replace('\n', ' '))] if rng.random() < 0.5 else [])
            cat['entries'].append({'msgid': '%(n)d file', 'msgid_plural': '%(n)d files', 'msgstr_plural': ['%(n)d plik', '%(n)d pliki', '%(n)d plików'], 'flags': ['python-format']})
            cat['entries'].append({'msgid': '{n} file', 'msgid_plural': '{n} files', 'msgstr_plural': ['{n} plik', '{n} pliki', '{n} plików'], 'flags': ['python-brace-format']})
            files.append((w(d, 'dupf%d.po' % i, pogen.render(cat)), 'duplicate-header-field:' + field))
            i += 1
    for cs in ['idna', 'punycode', 'utf-7', 'utf-16', 'utf-32', 'hz', 'iso2022_jp', 'rot13', 'base64', 'hex', 'uu', 'quopri', 'zlib', 'bz2', 'unicode_escape',
               'raw_unicode_escape', 'undefined', 'charmap', 'utf_8_sig', 'cp037', 'cp500', 'mbcs', 'oem', 'string-escape', 'unicode_internal']:
        for body in ['.xn--a.', 'xn--', '+AGE-', '+-', '~{', '\\u12', '\\N{x}', 'x', '=?', '\x1b$B']:
            text = 'msgid ""\nmsgstr ""\n"Content-Type: text/plain; charset=%s\\n"\n\nmsgid "a"\nmsgstr "%s"\n' % (cs, body)
            files.append((w(d, 'cs%d.po' % i, text), 'component:charset-ascii-only'))
            i += 1
    for flag, vals in FORMAT_STRINGS.items():
        for v in vals:
            for shape in range(3):
                cat = pogen.base_catalog()
                if shape == 0:
                    cat['entries'].append({'msgid': v, 'msgstr': 'x' + v, 'flags': [flag]})
                elif shape == 1:
                    cat['entries'].append({'msgid': 'plain %s' % i, 'msgstr': v, 'flags': [flag]})
                else:
                    cat['entries'].append({'msgid': v, 'msgid_plural': v + ' s', 'msgstr_plural': [v, 'x', v + v], 'flags': [flag, 'range:0..3']})
                files.append((w(d, 'f%d.%s' % (i, 'pot' if shape == 0 and i % 2 else 'po'), pogen.render(cat)), 'component:' + flag))
                i += 1
    # valid multi-argument strings with 1..3 arguments dropped from one translation (the tolerated-omission and the argument-comparison paths)
    for flag, vs in VALID_FORMATS.items():
        for parts in vs:
            full = ' '.join(parts)
            for drop in (1, 2, 3):
                short = ' '.join(parts[drop:]) or 'x'
                cat = pogen.base_catalog()
                cat['entries'].append({'msgid': full, 'msgstr': short, 'flags': [flag]})
                cat['entries'].append({'msgid': 'r ' + short, 'msgstr': 'r ' + full, 'flags': [flag]})
                for form in range(3):
                    forms = [full, full, full]
                    forms[form] = short
                    cat['entries'].append({'msgid': '%d %d ' % (drop, form) + full, 'msgid_plural': '%d %d s ' % (drop, form) + full, 'msgstr_plural': forms,
                                           'flags': [flag] + (['range:1..1'] if form == 2 and drop == 2 else [])})
                files.append((w(d, 'va%d.po' % i, pogen.render(cat)), 'component:' + flag + ':dropped-arguments'))
                i += 1
    # a lone surrogate reaching the XML check (D26, fixed: s.encode('UTF-8') in lib/xml.py raised UnicodeEncodeError) -- found by the RaiseSites table
    for cs in ['raw_unicode_escape', 'unicode_escape', 'utf-16', 'utf-8', 'utf-7']:
        for mid, mstr in [('a\\ud800', 'b'), ('<a>x</a>', '<a>\\udfff</a>'), ('\\ud800\\udc00', '\\udc00\\ud800'), ('+2AA-', '+2AA-')]:
            for ext, com in [('po', 'type: Content of: <para>'), ('pot', 'type: Content of: <para><b>'), ('po', 'type: Content of: <para>x')]:
                text = ('msgid ""\nmsgstr ""\n"Content-Type: text/plain; charset=%s\\n"\n"Language: pl\\n"\n\n#. %s\nmsgid "%s"\nmsgstr "%s"\n'
                        % (cs, com, mid, '' if ext == 'pot' else mstr))
                files.append((w(d, 'xs%d.%s' % (i, ext), text), 'component:xml-surrogate'))
                i += 1
    # every supported charset (the tool's own codecs and the iconv-backed ones included) with languages that have a character list:
    # the unrepresentable-characters check encodes the list, then each character alone
    from lib import encodings as E
    css = sorted(set(E.get_portable_encodings(python=False)) | {x.upper() for x in getattr(E, '_extra_encodings', ())})
    langs = ['el', 'ja', 'pl', 'ru', 'zh_TW', 'vi', 'ka', 'tg', 'de', 'he', 'ko', 'th']
    for cs in css:
        for lang in (langs if not ctx.quick() else rng.sample(langs, 4) + (['el', 'ja'] if cs.upper() in ('EUC-TW', 'KOI8-T', 'VISCII', 'KOI8-RU', 'GEORGIAN-PS') else [])):
            text = 'msgid ""\nmsgstr ""\n"Content-Type: text/plain; charset=%s\\n"\n"Language: %s\\n"\n\nmsgid "a"\nmsgstr "b"\n' % (cs, lang)
            files.append((w(d, 'lc%d.po' % i, text), 'language-x-charset'))
            i += 1
    # an XML text declaration naming an encoding Python cannot use, in a message of a po4a document (D31)
    for encname in ['foo', 'hex', 'rot13', 'idna', 'cp932', 'UTF-8', 'utf-16', 'ascii']:
        for slot in ('msgid', 'msgstr'):
            decl = '<?xml version=\\"1.0\\" encoding=\\"%s\\"?>x' % encname
            text = ('msgid ""\nmsgstr ""\n"Content-Type: text/plain; charset=UTF-8\\n"\n"Language: pl\\n"\n\n#. type: Content of: <para>\n'
                    'msgid "%s"\nmsgstr "%s"\n' % (decl if slot == 'msgid' else 'a', decl if slot == 'msgstr' else 'b'))
            files.append((w(d, 'xd%d.po' % i, text), 'component:xml-text-declaration'))
            i += 1
    # flags and ranges
    for fl in ['range:' + '9' * 5000 + '..' + '9' * 5001, 'range:1..', 'range:..', 'range: 1..2 ', 'range:2..1', 'range:1..2, range:1..3', ', ,', 'fuzzy, fuzzy', '\x1b', 'c-format, no-c-format']:
        cat = pogen.base_catalog()
        cat['entries'].append({'msgid': 'a', 'msgid_plural': 'b', 'msgstr_plural': ['x', 'y', 'z'], 'flags': [fl]})
        files.append((w(d, 'g%d.po' % i, pogen.render(cat)), 'component:flags'))
        i += 1
    # escapes inside strings (polib_unescape)
    for s in ['\\777', '\\9', '\\8', '\\x', '\\xg', '\\x1', '\\400', '\\u1234', '\\N{BULLET}', '\\', '\\\\\\', '\\"', 'a\\\nb', '\\0', '\\00', '\\x00', '\\U0010ffff', '\\c', '\\e']:
        text = 'msgid ""\nmsgstr ""\n"Content-Type: text/plain; charset=UTF-8\\n"\n\nmsgid "a%s"\nmsgstr "b%s"\n' % (s, s)
        files.append((w(d, 'e%d.po' % i, text), 'component:escapes'))
        i += 1
    # raw noise and mutated real files
    src = os.path.join(common.REPO, 'tests', 'blackbox_tests')
    seeds = sorted(f for f in os.listdir(src) if f.endswith(('.po', '.pot', '.mo')))
    n_noise = 60 if ctx.quick() else 2000
    for k in range(n_noise):
        ext = rng.choice(['po', 'pot', 'mo', 'gmo', 'txt', 'po'])
        r = rng.random()
        if r < 0.3:
            data = bytes(rng.randrange(256) for _ in range(rng.randrange(0, 400)))
            if ext in ('mo', 'gmo') and rng.random() < 0.7:
                data = rng.choice([b'\xde\x12\x04\x95', b'\x95\x04\x12\xde']) + data
        else:
            data = bytearray(open(os.path.join(src, rng.choice(seeds)), 'rb').read())
            for _ in range(rng.randrange(1, 6)):
                if not data:
                    break
                op = rng.random()
                pos = rng.randrange(len(data))
                if op < 0.4:
                    data[pos] = rng.randrange(256)
                elif op < 0.6:
                    del data[pos:pos + rng.randrange(1, 20)]
                elif op < 0.8:
                    data[pos:pos] = bytes(rng.randrange(256) for _ in range(rng.randrange(1, 8)))
                else:
                    data = data[:pos]
            data = bytes(data)
        files.append((w(d, 'n%d.%s' % (k, ext), data), 'noise/mutation'))
    # MO files whose strings cannot be decoded in the charset their header declares (the ISO-8859-1 retry of Checker.check)
    from harness import mo_lib
    k = 0
    for cs in ['UTF-8', 'ASCII', 'ISO-8859-2', 'EUC-JP', 'utf8', 'KOI8-T', 'VISCII', None, 'nonesuch']:
        for bad in [b'lis \xff\xfe', b'\xc3', b'caf\xe9', b'\x8e', b'ok']:
            for be in (False, True):
                hdr = b'Project-Id-Version: x 1\n' + ((b'Content-Type: text/plain; charset=' + cs.encode() + b'\n') if cs else b'') + b'Language: pl\n'
                kvs = [(b'', hdr), (b'A fox', bad), (b'ctx\x04B', b'b'), (b'one\x00many', b'x\x00' + bad)]
                kvs = [kvs[0]] + sorted(kvs[1:])
                data, _ = mo_lib.serialise(kvs, mo_lib.Layout(be=be), rng)
                files.append((w(d, 'mu%d.%s' % (k, 'gmo' if k % 5 == 0 else 'mo'), data), 'mo-undecodable'))
                k += 1
    # MO truncations and word corruptions
    for mo in [f for f in seeds if f.endswith('.mo')][:4]:
        data = open(os.path.join(src, mo), 'rb').read()
        cuts = range(0, len(data) + 1, 1 if not ctx.quick() else max(1, len(data) // 40))
        for t in cuts:
            files.append((w(d, 'mt_%s_%d.mo' % (mo[:8], t), data[:t]), 'mo-truncation'))
        import struct
        for off in range(0, min(len(data), 28 + 64) - 3, 4):
            for val in (0, 1, len(data) - 1, len(data), len(data) + 1, 2 ** 31, 2 ** 32 - 1):
                if ctx.quick() and rng.random() < 0.7:
                    continue
                b = bytearray(data)
                b[off:off + 4] = struct.pack('<I', val)
                files.append((w(d, 'mw_%s_%d_%d.mo' % (mo[:8], off, val), bytes(b)), 'mo-word-corruption'))
    return files


def pumped_families():
    """(name, function n -> file text, finding id or None); size grows linearly with n"""
    hdr = 'msgid ""\nmsgstr ""\n"Content-Type: text/plain; charset=UTF-8\\n"\n"Language: pl\\n"\n'
    def pf(expr):
        return hdr + '"Plural-Forms: nplurals=2; plural=%s;\\n"\n\nmsgid "a"\nmsgid_plural "b"\nmsgstr[0] "c"\nmsgstr[1] "d"\n' % expr
    def msg(flag, s):
        return hdr + '\n#, %s\nmsgid "%s"\nmsgstr "%s"\n' % (flag, s, s)
    return [
        ('plural-plus-chain', lambda n: pf('n' + '+1' * n), 'D12'),
        ('plural-not-chain', lambda n: pf('!' * n + 'n'), 'D12'),
        ('plural-parens', lambda n: pf('(' * n + 'n' + ')' * n), 'D12'),
        ('plural-ternary-chain', lambda n: pf('n==1?0:' * n + '1'), 'D12'),
        ('plural-long-constant', lambda n: pf('n%' + '9' * n), None),
        ('pybrace-colon-a', lambda n: msg('python-brace-format', '{:' + 'a' * n), 'D4'),
        ('pybrace-open-braces', lambda n: msg('python-brace-format', '{' * n), None),
        ('pybrace-index', lambda n: msg('python-brace-format', '{a[' + 'x' * n), None),
        ('pybrace-conv', lambda n: msg('python-brace-format', '{0!' + 's' * n), None),
        ('pybrace-nested', lambda n: msg('python-brace-format', '{0:' + '{1}' * n + '}'), None),
        ('c-format-many', lambda n: msg('c-format', '%d ' * n), None),
        ('c-format-numbered', lambda n: msg('c-format', ' '.join('%%%d$d' % (k + 1) for k in range(min(n, 4000)))), None),
        ('c-format-flags', lambda n: msg('c-format', '%' + '-' * n + 'd'), None),
        ('python-format-parens', lambda n: msg('python-format', '%(' + '(' * n + ')' * n + ')s'), None),
        ('python-format-many', lambda n: msg('python-format', '%(a)s ' * n), None),
        ('perl-brace-many', lambda n: msg('perl-brace-format', '{a} ' * n), None),
        ('long-msgid-spaces', lambda n: hdr + '\nmsgid "%s"\nmsgstr "%s x"\n' % (' ' * n, ' ' * n), None),
        ('many-entries', lambda n: hdr + ''.join('\nmsgid "m%d"\nmsgstr "t%d"\n' % (k, k) for k in range(n)), None),
        ('many-duplicates', lambda n: hdr + '\nmsgid "m"\nmsgstr "t"\n' * n, None),
        ('many-flags', lambda n: hdr + '\n#, ' + ', '.join('f%d' % k for k in range(n)) + '\nmsgid "m"\nmsgstr "t"\n', None),
        ('many-header-fields', lambda n: 'msgid ""\nmsgstr ""\n' + ''.join('"X-F%d: v\\n"\n' % k for k in range(n)), None),
        ('long-header-value', lambda n: hdr + '"Language-Team: ' + 'a@' * n + '\\n"\n', None),
        ('date-spaces', lambda n: hdr + '"PO-Revision-Date: 2012-11-01' + ' ' * n + '14:42+0100\\n"\n', None),
        ('xml-nesting', lambda n: hdr + '\n#. type: Content of: <para>\nmsgid "%s"\nmsgstr "%s"\n' % ('<a>' * n, '<a>' * n), None),
        ('escape-run', lambda n: hdr + '\nmsgid "%s"\nmsgstr "x"\n' % ('\\\\' * n), None),
        ('continuation-lines', lambda n: hdr + '\nmsgid ""\n' + '"a"\n' * n + 'msgstr "x"\n', None),
        ('comment-lines', lambda n: hdr + '\n' + '# c\n' * n + 'msgid "a"\nmsgstr "x"\n', None),
        ('conflict-markers', lambda n: hdr + '\nmsgid "a"\nmsgstr "' + '#-#-#-#-#  x  #-#-#-#-#\\n' * n + '"\n', None),
    ]


def check(ctx):
    build = common.coq_build()
    aud = common.audit(ctx.id, coqchk=not ctx.quick())
    report_raise_sites(ctx, build)
    # ---- the orchestration Checker.check() itself: scripted os.stat / loader outcomes through the real method (sub-checks replaced
    # by recorders) against Model/Check.v, and the oracle of tools/harness/glue_lib.py (what may propagate, what is tagged)
    t_glue = time.time()
    glue_lib.run_stream(ctx)
    ctx.stats['glue:wall_s'] = round(time.time() - t_glue, 1)
    d = os.path.join(common.WORK, 'c01')
    shutil.rmtree(d, ignore_errors=True)
    os.makedirs(d)
    files = gen_files(ctx, d)
    rng = ctx.rng
    fam = dict(files)
    # ---- batches through the real CLI with varying options
    names = [f for f, _ in files]
    rng.shuffle(names)
    batches = [names[i:i + 25] for i in range(0, len(names), 25)]
    optsets = [[], ['-l', 'pl'], ['-l', 'de_DE'], ['-j', '3'], ['--file-type', 'po'], ['--file-type', 'mo'], ['--file-type', 'pot'], ['-l', 'sr@latin', '-j', '2']]

    def run_batch(ib):
        i, b = ib
        opts = optsets[i % len(optsets)] if i % 3 else []
        return b, opts, run_cli(opts + b, d, TIME_CAP * len(b))
    suspects = []
    with concurrent.futures.ThreadPoolExecutor(max_workers=common.NPROC) as ex:
        for b, opts, (out, err, rc, dt) in ex.map(run_batch, enumerate(batches)):
            ctx.evaluations += len(b)
            bad_lines = [l for l in out.decode('utf-8', 'replace').split('\n')[:-1] if not LINE_RE.match(l)]
            if rc != 0 or err or bad_lines:
                suspects.append((b, opts))
            else:
                for f in b:
                    ctx.count('ok:' + fam[f])
                    ctx.nontriv(f)

    def run_one(fo):
        f, opts = fo
        return f, opts, run_cli(opts + [f], d, TIME_CAP)
    singles = [(f, opts) for (b, opts) in suspects for f in b]
    with concurrent.futures.ThreadPoolExecutor(max_workers=common.NPROC) as ex:
        for f, opts, (out, err, rc, dt) in ex.map(run_one, singles):
            text = out.decode('utf-8', 'replace')
            bad_lines = [l for l in text.split('\n')[:-1] if not LINE_RE.match(l)]
            if rc == 0 and not err and not bad_lines and dt <= TIME_CAP:
                ctx.count('ok:' + fam[f])
                ctx.nontriv(f)
                continue
            data = open(os.path.join(d, f), 'rb').read()
            errs = err.decode('utf-8', 'replace')
            finding = classify_known(f, data, errs, rc)
            what = 'rc=%d stderr=%r bad_lines=%r time=%.1fs options=%r' % (rc, errs[-400:], bad_lines[:2], dt, opts)
            kind = 'timeout' if rc == -999 else ('traceback' if 'Traceback' in errs else ('stderr' if err else ('exit-status' if rc else 'output-grammar')))
            ctx.fail(kind, {'file_name': f, 'family': fam[f], 'options': opts, 'content': data[:3000].decode('utf-8', 'backslashreplace')}, what, finding)
            ctx.count('bad:' + kind)
    # ---- pumped families: time growth
    sizes = [500, 2000, 8000] if ctx.quick() else [500, 2000, 8000, 32000]
    fams = pumped_families()

    def run_family(fm):
        name, mk, finding = fm
        times = []
        for n in sizes:
            fn = w(d, 'p_%s_%d.po' % (name, n), mk(n))
            out, err, rc, dt = run_cli([fn], d, 25 if ctx.quick() else 120)
            times.append((n, dt, rc, err.decode('utf-8', 'replace')[-300:]))
            if rc != 0 or err:
                break
        return name, finding, times
    with concurrent.futures.ThreadPoolExecutor(max_workers=common.NPROC) as ex:
        fam_results = list(ex.map(run_family, fams))
    base_t = min(t for _, _, ts in fam_results for (_, t, _, _) in ts)   # interpreter start-up
    for name, finding, times in fam_results:
        ctx.evaluations += len(times)
        ctx.nontriv(('family', name))
        n, dt, rc, err = times[-1]
        if rc != 0 or err:
            ctx.fail('pumped-timeout' if rc == -999 else 'pumped-crash', {'family': name, 'n': n}, 'rc=%d stderr=%r after %.1fs' % (rc, err, dt), finding)
            continue
        # growth between the two largest sizes, above a noise floor
        (n1, t1, _, _), (n2, t2, _, _) = times[-2], times[-1]
        a, b = max(t1 - base_t * 0.9, 0.02), max(t2 - base_t * 0.9, 0.02)
        ctx.stats['time:' + name] = [round(t, 2) for (_, t, _, _) in times]
        ratio_cap = 4.5 ** (1 if n2 == 2 * n1 else 2)      # sizes grow 4x per step: quadratic growth is 16x
        if b > 1.0 and b / a > ratio_cap:
            ctx.fail('super-quadratic-time', {'family': name, 'times': [(n_, round(t, 2)) for (n_, t, _, _) in times]},
                     'run time grows by %.1fx when the input grows %dx (%d -> %d): more than quadratic' % (b / a, n2 // n1, n1, n2), finding)
    ctx.samples = [{'file': f, 'family': fm} for f, fm in files[::max(1, len(files) // 8)]][:8] + [{'pumped_family': n} for n, _, _ in fams[:4]]
    shutil.rmtree(d, ignore_errors=True)
    return common.finish(
        ctx, 'other', build, aud, TRUSTED, ASSUME,
        checker_cmd='tools/build.sh (coqc on Props/C01.v) then coqc Audit_C01.v (Print Assumptions)',
        rule='generated files of every kind (hostile catalogs with 1-3 mutated slots; each component\'s malformed stream in the header field / flag / string that reaches it; '
             'escape spellings; raw byte noise and byte-mutated black-box files with po/pot/mo/gmo/other extensions; MO truncations and word corruptions) through the real CLI '
             'in batches with -l / --file-type / -j variations, culprits re-run alone: rc 0, empty stderr, every stdout line matches the line grammar, time under the cap; '
             'pumped families (size doubling) for time growth. Checker.check orchestration: product of {os.stat ok / OSError / other} x 25 paths x --file-type x outcome of the first '
             'constructor call x outcome of the retry (file, UnicodeDecodeError with object lengths 0..100 and starts around 0 / 40 / the end / negative, moparser.SyntaxError, OSError with and '
             'without errno over 40 message shapes, other exceptions) through the real method with stubs vs Model/Check.v, plus the oracle. '
             'non-trivial = distinct generated file that was processed cleanly, a pumped family, or a distinct model result of the orchestration stream',
        explanation='Partial: the component no-crash theorems are about the models; exit status, stderr, recursion limits, regex cost and time are explored on the real CLI.')


def report_raise_sites(ctx, build):
    """The static half (C01_every_own_error_is_caught) is decided by Coq over Generated/RaiseSites.v.  This only names, in the
    replay file of a broken tie, the rows that make it fail -- read from the JSON twin the translator writes next to the table."""
    path = os.path.join(common.VERIF, 'coq', 'Generated', 'RaiseSites.json')
    if build['gen_rc'] != 0 or not os.path.exists(path):
        ctx.notes.append('RaiseSites table not regenerated (gen_rc=%s)' % build['gen_rc'])
        return
    t = json.load(open(path))
    ctx.stats['raise-sites'] = dict(t['by_disposition'], rows=t['rows'], lib_raise_sites=t['lib_raise_sites'], dead_raise_sites=t['dead_raise_sites'], asserts=t['asserts'])
    for k in ('stale_whitelist', 'stale_overrides', 'revoked_dead'):
        if t.get(k):
            ctx.notes.append('gen_raisesites %s: %r' % (k, t[k]))
    for r in t['uncaught']:
        ctx.disagree('exception-flow', {'file': r['file'], 'line': r['line'], 'function': r['func'], 'callee': r['callee'], 'class': r['class'], 'raised_at': r['origin']},
                     'caught by an enclosing except clause, or reviewed', 'uncaught: ' + r['disp'][1])
    for r in t['unclassified_raises']:
        ctx.disagree('exception-flow', {'raise': r}, 'a raise statement of a known exception class', 'unclassified')
    for r in t['implicit_methods_nonempty']:
        ctx.disagree('exception-flow', {'method': r}, 'operator / attribute-access methods raise nothing', 'non-empty may-raise summary')


def classify_known(name, data, errs, rc):
    """structural predicates of the recorded known findings (matched on the failing case, never on the property alone)"""
    if 'SyntaxWarning' in errs and rc == 0 and re.search(rb'\\[89]|\\[4-7][0-7][0-7]', data):
        return 'D14'
    if 'UnicodeError' in errs and b'charset=idna' in data:
        return 'D11'
    if re.search(rb'<\?xml[^>]*encoding=', data) and b'type: Content of:' in data and ('lib/xml.py' in errs or 'ExternalEntityRef' in errs):
        return 'D31'
    if 'RecursionError' in errs:
        m = re.search(rb'plural=([^;]+);', data)
        if m:
            from harness import intexpr_lib as L
            try:
                if L.is_deep(m.group(1).decode('ascii', 'replace')):
                    return 'D12'
            except Exception:  # noqa
                pass
    return None

"""Growth-rate measurement of a parser on pumped input families (run in a worker process with a per-case
timeout).  A family is linear-looking when t(2n)/t(n) < RATIO for every doubling whose smaller time is above
the noise floor; it fails when a ratio is above RATIO or a case hits the cap."""
import time

RATIO = 3.0
FLOOR = 0.01       # seconds: below this a measurement is noise
CAP = 4.0          # seconds: per-case timeout


def _parser(which):
    if which == 'pybrace':
        from lib.strformat import pybrace as M
    elif which == 'perlbrace':
        from lib.strformat import perlbrace as M
    else:
        from lib.strformat import python as M
    return M


def time_one(payload):
    """payload = (which, string) -> seconds (best of up to 3 when fast)"""
    which, s = payload
    M = _parser(which)
    best = None
    for _ in range(3):
        t0 = time.perf_counter()
        try:
            M.FormatString(s)
        except Exception:  # noqa
            pass
        dt = time.perf_counter() - t0
        best = dt if best is None else min(best, dt)
        if dt > 0.5:
            break
    return best


def judge(sizes, times):
    """-> (ok, description).  times[i] is seconds or 'timeout'"""
    prev = None
    for n, t in zip(sizes, times):
        if t == 'timeout':
            return False, 'n=%d exceeded %.1fs (previous: %s)' % (n, CAP, prev)
        if prev is not None and prev[1] >= FLOOR and t / prev[1] >= RATIO:
            return False, 't(%d)=%.4fs, t(%d)=%.4fs: ratio %.1f >= %.1f' % (prev[0], prev[1], n, t, t / prev[1], RATIO)
        prev = (n, t)
    return True, 't(%d)=%.4fs' % (sizes[-1], times[-1])

"""C08: every well-formed MO file decodes to exactly the catalog it encodes."""
import glob
import os

import common
from harness import mo_lib as ML

TRUSTED = [
    'Coq 8.16.1 kernel (coqc, vm_compute); coqchk in thorough tier',
    'axioms: none (Print Assumptions must report "Closed under the global context" for every theorem of Props/C08.v)',
    'hand-written Gallina model Model/MoParser.v of lib/moparser.py (Parser._read_ints/_parse/_parse_entry), byte level',
    'Spec/MoFormat.v: hand-written reading of gettext-runtime/intl/gmo.h (relation Encodes_at, wf_catalog)',
    'extraction (ExtrOcamlBasic only) + ocaml/driver.ml (op morun)',
    'oracles applied by the harness to the model result: encodings.is_ascii_compatible_encoding on the charset name, bytes.decode(charset)',
    'modelled, not verified: memoryview slicing/indexing, struct.unpack, bytes.split, the `re` search for charset=',
    'the harness MO serialiser (tools/harness/mo_lib.py) and its catalog generator',
    'source translator tools/gen/gen_moparser_src.py (python ast of Parser._read_ints/_parse_entry/_parse and the magic constants -> Generated/MoParserSrc.v, fail-closed subset, rules in its docstring) with the Gallina meaning of that subset in Model/MoParserPy.v; the C08_source_tie_* theorems prove its output equal to Model/MoParser.v; Parser.__init__ (file reading, cast to bytes of length 1, creation of the MOFile) and what polib.MOEntry does with its arguments stay tied by correspondence only',
]
ASSUME = ['bytes of the file are < 256 (bytes_ok) where a theorem needs the value of a word',
          'a "legal layout" = what gmo.h requires a reader to interpret: header words 0..4 (and word 9 when minor = 1), two descriptor tables, '
          'each string followed by NUL; hash table, sysdep tables, padding and overlaps are unconstrained']


def fixed_catalog():
    return [(None, '', None, ['Content-Type: text/plain; charset=UTF-8\n']),
            (None, 'a', None, ['']),
            (None, 'b', 'bs', ['x', '', 'zz']),
            ('ctx', 'b', None, ['cb']),
            ('ctx', 'c', 'cs', ['']),
            (None, 'dé', None, ['€'])], 'UTF-8'


def gen_cases(ctx):
    rng = ctx.rng
    cases = []
    names = ML.charset_names()
    # 1. small-scope over the layout switches, one fixed catalog with context, plural, empty strings
    cat, cs = fixed_catalog()
    cat = sorted(cat, key=lambda e: ML.sort_key(e, cs))
    for be in (False, True):
        for (major, minor, sysdep) in ((0, 0, 0), (0, 1, 0), (0, 1, 2), (1, 0, 0), (1, 1, 0), (0, 2, 0), (0, 65535, 0)):
            for hw in (0, 5):
                for share in (False, True):
                    for order in (('otab', 'ttab', 'hash', 'poolA', 'poolB'), ('poolB', 'hash', 'ttab', 'poolA', 'otab')):
                        for shuffle in (False, True):
                            L = ML.Layout(be=be, major=major, minor=minor, sysdep=sysdep, hash_words=hw, order=order, pad=3 * shuffle,
                                          share=share, shuffle=shuffle, header_extra=5 * shuffle)
                            data, _ = ML.serialise_catalog(cat, cs, L, rng)
                            cases.append((data, dict(cat=cat, cs=cs, want_cs='UTF-8', layout=L, origin='layout-switches')))
    # 2. random catalogs in every ASCII-compatible charset of data/encodings, random layouts
    per = 60 if ctx.quick() else 1500
    for name in names:
        for k in range(per):
            header = rng.choice(['std', 'std', 'std', 'lower', 'late', 'none', 'nocharset'])
            cat, tcs = ML.gen_catalog(rng, name, header=header, dup=rng.random() < 0.1)
            L = ML.rand_layout(rng)
            data, _ = ML.serialise_catalog(cat, tcs, L, rng)
            if header in ('std', 'late'):
                want = name
            elif header == 'lower':
                want = name.lower()
            else:
                want = 'ASCII' if cat else None
            cases.append((data, dict(cat=cat, cs=tcs, want_cs=want, layout=L, origin='random/' + header)))
    # 3. without contexts (the part of the property that holds on the code as it is), bigger catalogs
    for k in range(3000 if ctx.quick() else 60000):
        name = rng.choice(names)
        cat, tcs = ML.gen_catalog(rng, name, header='std', nmax=12, contexts=False)
        L = ML.rand_layout(rng)
        data, _ = ML.serialise_catalog(cat, tcs, L, rng)
        cases.append((data, dict(cat=cat, cs=tcs, want_cs=name, layout=L, origin='no-context')))
    return cases


def blackbox_files():
    out = []
    for p in sorted(glob.glob(os.path.join(common.REPO, 'tests', 'blackbox_tests', '*.mo'))):
        with open(p, 'rb') as f:
            out.append((os.path.basename(p), f.read()))
    return out


def check(ctx):
    build = common.coq_build()
    aud = common.audit(ctx.id, coqchk=not ctx.quick())
    ML.setup()
    cases = gen_cases(ctx)
    metas = {}
    for data, meta in cases:
        metas.setdefault(data, meta)
    extra = [d for _, d in blackbox_files()]
    req = [(ML.model_line((None, d)), (None, d)) for d in list(metas) + extra]
    res = common.compare_parallel('harness.mo_lib', 'impl_run', req, per_case_timeout=30)
    ctx.evaluations += len(res)
    for (line, payload, m, r) in res:
        data = payload[1]
        exp = ML.expected_from_model(m)
        if exp != r:
            ctx.disagree('morun', {'file': list(data)[:600], 'size': len(data)}, exp[:400], r[:400])
        meta = metas.get(data)
        if meta is None:
            ctx.count('blackbox:' + r.split(',')[0])
            continue
        L = meta['layout']
        ctx.count('origin:' + meta['origin'])
        ctx.count('layout:' + ('be' if L.be else 'le') + '/minor%d' % min(L.minor, 2))
        ctx.count('outcome:' + eval(r)[0])
        if meta['cat']:
            ctx.nontriv(data)
        # the property's own oracle: parse(serialise(c, layout)) == c, hidden flag per the revision
        want = ('ok', L.hidden(), meta['want_cs'], list(meta['cat']))
        got = eval(r)
        if got != want:
            info = {'catalog': repr(meta['cat'])[:600], 'charset': meta['cs'], 'layout': L.describe(), 'file': list(data)[:800],
                    'origin': meta['origin'], 'got': r[:600]}
            if got[0] == 'ok' and got[:3] == want[:3] and ML.swap_ctxt(got[3]) == want[3]:
                ctx.count('finding:D18')
                ctx.fail('ctxt-swapped', info, 'msgctxt and msgid come back exchanged for every entry that has a context', finding='D18')
            elif got[0] == 'ok' and got[1] != want[1]:
                ctx.fail('hidden-flag', info, 'possible_hidden_strings = %r, the revision/sysdep count say %r' % (got[1], want[1]))
            else:
                ctx.fail('decode-mismatch', info, 'loading the serialised catalog did not give the catalog back')
    ctx.samples = [{'catalog': repr(m['cat'])[:200], 'layout': m['layout'].describe(), 'origin': m['origin']} for m in list(metas.values())[::max(1, len(metas) // 10)]][:10]
    return common.finish(
        ctx, 'proof', build, aud, TRUSTED, ASSUME,
        checker_cmd='tools/build.sh (coq_makefile + make: coqc on Props/C08.v) then coqc Audit_C08.v (Print Assumptions)',
        rule='harness MO serialiser over (byte order x major 0/1 x minor 0/1/2/65535 x sysdep count x hash table on/off x region order x '
             'string sharing/overlap x shuffled string placement in two pools x random padding x extra header bytes x trailing bytes), '
             'catalogs with contexts, plurals, empty strings, duplicates, non-ASCII text in every ASCII-compatible charset of data/encodings, '
             'header spellings (charset upper/lower, after other fields, missing, no header entry); each file: model (op morun, oracles applied) '
             'vs moparser.Parser on a temporary file, and ORACLE parse(serialise(c, layout)) == (c, hidden flag, charset). '
             'non-trivial = distinct file with at least one entry')

"""C15: header diagnostics match the documented conditions.

Tie: generated headers -> real PO/POT/MO files (or a constructed context) -> the real Checker in-process with tag()
recorded -> the recorded tags of the modelled methods (check_comments, check_headers, check_mime, check_project,
check_translator), in order, must equal what the extracted model prints for the same parsed catalog.
Oracle (no model involved): the documented rules re-stated in Python and applied to the recorded tags."""
import os
import re
import shutil
import struct
import traceback

import common
from common import enc_str
from harness import pogen

TRUSTED = [
    'Coq 8.16.1 kernel (coqc, vm_compute); coqchk in thorough tier',
    'axioms: none (Print Assumptions must report "Closed under the global context" for every theorem of Props/C15.v)',
    'hand-written Gallina model Model/Header.v of gettext.parse_header, Checker.check_comments / check_headers / check_mime / '
    'check_project / check_translator and lib/domains.py; every regex replaced by a scanner',
    'Spec/HeaderRules.v: the documented conditions, read by a human from data/tags and RFC 5322 3.6.8 / RFC 6761 / RFC 6762',
    'Generated/HeaderFields.v (lib.gettext.header_fields, check.header_fields_with_dedicated_checks), Generated/SpecialDomains.v '
    '(lib.domains._is_special translated fail-closed), Generated/UcdHeader.v (re \\w \\d \\s of the running interpreter), regenerated every run',
    'oracles outside the theorems, computed by the harness with the same library call and passed to the model: str.lower, '
    'difflib.get_close_matches, email.utils.parseaddr, urllib.parse.urlparse, lib.encodings predicates, Language.get_unrepresentable_characters',
    'polib (PO/MO parsing) is upstream of the model: the model input is the catalog as polib delivered it to the check methods',
    'extraction (ExtrOcamlBasic only) + ocaml/driver.ml',
    'source tie: tools/gen/gen_header_src.py (python ast -> Gallina, fail-closed subset; rules in its docstring) translating gettext.parse_header and '
    'Checker.check_comments / check_headers / check_mime (without the charset part) / check_project / check_translator into Generated/HeaderSrc.v, and '
    'Model/HeaderPy.v (the Gallina meaning of the Python operations it emits); C15_source_tie_* prove the translation equal to Model/Header.v',
]
ASSUME = ['the model starts from ctx.file as polib parsed it (entries, flags, initial comments); PO text decoding is C10\'s subject',
          'check_language, check_plurals, check_dates are other properties (C19, C07, C18); their tags are filtered out']

FIELDS7 = {
    'MIME-Version': 'mime-version', 'Content-Transfer-Encoding': 'content-transfer-encoding', 'Content-Type': 'content-type',
    'Project-Id-Version': 'project-id-version', 'Report-Msgid-Bugs-To': 'report-msgid-bugs-to',
    'Last-Translator': 'last-translator', 'Language-Team': 'language-team',
}
COVERED = {
    'boilerplate-in-initial-comments', 'duplicate-header-entry', 'empty-msgid-message-with-source-code-references',
    'empty-msgid-message-with-plural-forms', 'fuzzy-header-entry', 'unexpected-flag-for-header-entry',
    'duplicate-flag-for-header-entry', 'distant-header-entry', 'unusual-character-in-header-entry',
    'conflict-marker-in-header-entry', 'stray-header-line', 'unknown-header-field', 'duplicate-header-field',
    'invalid-mime-version', 'invalid-content-transfer-encoding', 'invalid-content-type', 'boilerplate-in-content-type',
    'unknown-encoding', 'non-ascii-compatible-encoding', 'non-portable-encoding', 'unrepresentable-characters',
    'boilerplate-in-project-id-version', 'no-package-name-in-project-id-version', 'no-version-in-project-id-version',
    'invalid-report-msgid-bugs-to', 'boilerplate-in-report-msgid-bugs-to', 'invalid-last-translator',
    'boilerplate-in-last-translator', 'invalid-language-team', 'boilerplate-in-language-team',
    'language-team-equal-to-last-translator',
}
for _f in FIELDS7.values():
    COVERED.add('duplicate-header-field-' + _f)
    COVERED.add('no-%s-header-field' % _f)
NO_FIELD_HINT = {
    'no-mime-version-header-field': ('MIME-Version: 1.0',),
    'no-content-transfer-encoding-header-field': ('Content-Transfer-Encoding: 8bit',),
    'no-content-type-header-field': ('Content-Type: text/plain; charset=<encoding>',),
}
MODELLED_METHODS = {'check_comments', 'check_headers', 'check_mime', 'check_project', 'check_translator'}


# ---------------------------------------------------------------- implementation side
_state = {}


def capturing_class():
    if 'cls' in _state:
        return _state['cls']
    from harness import impl_checker as IC
    base = IC.get_checker_class()

    class Capturing(base):
        def check_comments(self, ctx):
            self.cap = snapshot(ctx)
            self.cap_ctx = ctx
            return super().check_comments(ctx)

    _state['cls'] = Capturing
    return Capturing


def snapshot(ctx):
    from lib import check
    es = []
    for e in ctx.file:
        es.append({
            'header': bool(check.is_header_entry(e)), 'obsolete': bool(e.obsolete),
            'occ': [(str(p), str(l)) for (p, l) in (e.occurrences or ())],
            'plural': e.msgid_plural is not None,
            'msgstr': e.msgstr, 'plural0': e.msgstr_plural.get(0),
            'flags': list(e.flags or ()),
        })
    return {'template': bool(ctx.is_template), 'comment': ctx.file.header, 'entries': es}


class FakeFile(list):
    pass


def build_fake(cat, kind):
    """a constructed context (no file, no polib parsing): used for kind 'mo-ctx' / 'ctx'"""
    import polib
    f = FakeFile()
    for e in cat['entries']:
        kw = {'msgid': e['msgid']}
        if e.get('msgctxt') is not None:
            kw['msgctxt'] = e['msgctxt']
        if e.get('plural'):
            kw['msgid_plural'] = ''
            kw['msgstr_plural'] = {0: e['msgstr']} if e.get('plural0', True) else {1: 'x'}
            if not e.get('plural0', True):
                kw['msgstr'] = e['msgstr']
        elif e.get('msgstr') is not None:
            kw['msgstr'] = e['msgstr']
        en = polib.POEntry(**kw)
        en.obsolete = bool(e.get('obsolete'))
        en.occurrences = list(e.get('occ', []))
        en.flags = list(e.get('flags', []))
        f.append(en)
    f.header = cat.get('comment', '')
    f.metadata = {}
    f.metadata_is_fuzzy = False
    return f


def mo_bytes(msgs):
    """minimal little-endian MO file: msgs = sorted list of (msgid bytes, msgstr bytes)"""
    n = len(msgs)
    ids = b''
    strs = b''
    o_tab = 28
    t_tab = o_tab + 8 * n
    data_off = t_tab + 8 * n
    otab = []
    ttab = []
    blob = b''
    for (k, v) in msgs:
        otab.append((len(k), data_off + len(blob)))
        blob += k + b'\0'
    for (k, v) in msgs:
        ttab.append((len(v), data_off + len(blob)))
        blob += v + b'\0'
    out = struct.pack('<IIIIIII', 0x950412de, 0, n, o_tab, t_tab, 0, data_off)
    for (l, o) in otab + ttab:
        out += struct.pack('<II', l, o)
    return out + blob


def run_case(case):
    """case: dict(kind, idx, ...).  Returns dict(cap=..., tags=[(name, extras)], crash=..., tables=...)"""
    from harness import impl_checker as IC
    import types
    import collections
    kind = case['kind']
    cls = capturing_class()
    crash = None
    if kind in ('po', 'pot', 'mo'):
        d = os.path.join(common.WORK, 'c15', str(os.getpid()))
        os.makedirs(d, exist_ok=True)
        path = os.path.join(d, 'f%d.%s' % (case['idx'], kind))
        if kind == 'mo':
            with open(path, 'wb') as f:
                f.write(case['data'])
        else:
            with open(path, 'w', encoding='utf-8', errors='surrogateescape') as f:
                f.write(case['text'])
        chk = cls(path, options=IC.make_options())
        chk.cap = None
        try:
            chk.check()
        except Exception as e:  # noqa
            crash = (type(e).__name__, innermost_repo_function(e))
        try:
            os.unlink(path)
        except OSError:
            pass
        if chk.cap is None:
            return {'skipped': [n for (n, _) in chk.recorded][:3] or ['no-ctx'], 'crash': crash}
        cap, ctx = chk.cap, chk.cap_ctx
    else:
        chk = cls('/nonexistent/x.' + ('mo' if kind == 'mo-ctx' else 'po'), options=IC.make_options())
        ctx = types.SimpleNamespace()
        ctx.file = build_fake(case['cat'], kind)
        ctx.is_template = bool(case['cat'].get('template'))
        ctx.is_binary = (kind == 'mo-ctx')
        ctx.language = None
        cap = None
        try:
            chk.check_comments(ctx)     # the capture happens in here
            cap = chk.cap
            chk.check_headers(ctx)
            chk.check_mime(ctx)
            chk.check_project(ctx)
            chk.check_translator(ctx)
        except Exception as e:  # noqa
            crash = (type(e).__name__, innermost_repo_function(e))
        if cap is None:
            return {'skipped': ['no-ctx'], 'crash': crash}
    tags = [(n, x) for (n, x) in chk.recorded if n in COVERED]
    unknown = [n for (n, _) in chk.recorded if n.startswith('<UNKNOWN-TAG>')]
    lang = getattr(ctx, 'language', None)
    return {'cap': cap, 'tags': tags, 'crash': crash, 'unknown': unknown, 'lang': lang}


def innermost_repo_function(exc):
    fn = None
    for fs in traceback.extract_tb(exc.__traceback__):
        if fs.filename.startswith(common.REPO + os.sep):
            fn = fs.name
    return fn


# ---------------------------------------------------------------- canonical form of recorded tags (the driver's format)
def canon_tag(name, extra):
    from lib import tags as T
    ex = list(extra)

    def e(x):
        return enc_str(str(x))
    if name in NO_FIELD_HINT:
        if tuple(str(x) for x in ex) == NO_FIELD_HINT[name] and all(isinstance(x, T.safestr) for x in ex):
            return name
        return name + ' ?hint ' + ' '.join(e(x) for x in ex)
    if name == 'invalid-mime-version' or name == 'invalid-content-transfer-encoding':
        want = '1.0' if name == 'invalid-mime-version' else '8bit'
        if len(ex) == 3 and ex[1] == '=>' and ex[2] == want:
            return name + ' ' + e(ex[0])
        return name + ' ?shape ' + ' '.join(e(x) for x in ex)
    if name in ('invalid-content-type', 'non-portable-encoding', 'unknown-header-field', 'unexpected-flag-for-header-entry'):
        if len(ex) == 1 and name != 'invalid-content-type':
            return name + ' ' + e(ex[0])
        if len(ex) == 3 and ex[1] == '=>':
            return name + ' ' + e(ex[0]) + ' => ' + e(ex[2])
        return name + ' ?shape ' + ' '.join(e(x) for x in ex)
    if name == 'unusual-character-in-header-entry':
        if len(ex) == 1 and isinstance(ex[0], T.safestr):
            cps = []
            for part in str(ex[0]).split(', '):
                m = re.match(r'U\+([0-9A-F]{4,6}) \S', part)
                if not m:
                    return name + ' ?shape ' + e(ex[0])
                cps.append(int(m.group(1), 16))
            return name + ' s' + ','.join(map(str, cps))
        return name + ' ?shape ' + ' '.join(e(x) for x in ex)
    return ' '.join([name] + [e(x) for x in ex])


def canon_result(r):
    if r.get('crash'):
        return 'crash ' + r['crash'][0]
    return ' | '.join(canon_tag(n, x) for (n, x) in r['tags']) or '-'


# ---------------------------------------------------------------- model request line, with the oracle tables
def opt(s):
    return 'n' if s is None else enc_str(s)


def live_header(cap):
    """(index, entry) of the header entries that are not obsolete"""
    return [(i, e) for i, e in enumerate(cap['entries']) if e['header'] and not e['obsolete']]


def entry_msgstr(e):
    s = e['plural0'] if e['plural0'] is not None else e['msgstr']
    return s or ''


def rough_fields(msgstr):
    """superset of what the model can ask the oracles about: (key, value) for every line with a colon"""
    out = []
    for line in msgstr.split('\n'):
        if ':' in line:
            k, v = line.split(':', 1)
            out.append((k, v.strip(' \t')))
    return out


def oracle_tables(cap, lang):
    import difflib
    import email.utils
    import urllib.parse
    from lib import gettext
    from lib import encodings as encinfo
    lower, cfuzzy, cfield, paddr, url, enc, unrep = {}, {}, {}, {}, {}, {}, {}
    hs = live_header(cap)
    for f in gettext.header_fields:
        lower[f] = f.lower()
    if hs:
        e = hs[0][1]
        for fl in e['flags']:
            lower[fl] = fl.lower()
            cfuzzy[fl.lower()] = bool(difflib.get_close_matches(fl.lower(), ['fuzzy'], cutoff=0.8))
        for k, v in rough_fields(entry_msgstr(e)):
            lower[k] = k.lower()
            hints = difflib.get_close_matches(k, gettext.header_fields, n=1, cutoff=0.8)
            cfield[k] = hints[0] if hints else None
            if k in ('Report-Msgid-Bugs-To', 'Last-Translator', 'Language-Team'):
                addr = email.utils.parseaddr(v)[1]
                paddr[v] = addr
                if '@' in addr:
                    dom = addr.rsplit('@', 1)[1]
                    lower[dom] = dom.lower()
            if k == 'Report-Msgid-Bugs-To':
                try:
                    url[v] = 1 if urllib.parse.urlparse(v).scheme == '' else 0
                except ValueError:
                    url[v] = 2
            if k == 'Content-Type':
                i = v.find('charset=')
                while i >= 0:
                    tok = v[i + 8:]
                    if tok not in enc:
                        try:
                            ac = encinfo.is_ascii_compatible_encoding(tok, missing_ok=False)
                        except encinfo.EncodingLookupError:
                            enc[tok] = None
                        else:
                            po = encinfo.is_portable_encoding(tok) if ac else False
                            pr = encinfo.propose_portable_encoding(tok) if (ac and not po) else None
                            enc[tok] = (ac, bool(po), pr)
                            for name in {tok, pr} - {None}:
                                u = lang.get_unrepresentable_characters(name) if lang is not None else None
                                unrep[name] = list(u or [])
                    i = v.find('charset=', i + 1)
    return lower, cfuzzy, cfield, paddr, url, enc, unrep


def model_line(cap, lang):
    parts = ['hdr', '1' if cap['template'] else '0', enc_str(cap['comment'] or ''), str(len(cap['entries']))]
    for e in cap['entries']:
        parts += ['1' if e['header'] else '0', '1' if e['obsolete'] else '0', '1' if e['plural'] else '0',
                  opt(e['msgstr']), opt(e['plural0']), str(len(e['occ']))]
        for (p, l) in e['occ']:
            parts += [enc_str(p), enc_str(l)]
        parts.append(str(len(e['flags'])))
        parts += [enc_str(f) for f in e['flags']]
    lower, cfuzzy, cfield, paddr, url, enc, unrep = oracle_tables(cap, lang)

    def tbl(d, val):
        out = [str(len(d))]
        for k in d:
            out.append(enc_str(k))
            out += val(d[k])
        return out
    parts += tbl(lower, lambda v: [enc_str(v)])
    parts += tbl(cfuzzy, lambda v: ['1' if v else '0'])
    parts += tbl(cfield, lambda v: [opt(v)])
    parts += tbl(paddr, lambda v: [enc_str(v)])
    parts += tbl(url, lambda v: [str(v)])
    parts += tbl(enc, lambda v: ['u'] if v is None else ['k', '1' if v[0] else '0', '1' if v[1] else '0', opt(v[2])])
    parts += tbl(unrep, lambda v: [str(len(v))] + [enc_str(x) for x in v])
    return ' '.join(parts)


# ---------------------------------------------------------------- the property's own oracle (documented rules; no model)
FTEXT = re.compile(r'[\x21-\x39\x3b-\x7e]+\Z')          # RFC 5322 3.6.8 ftext
MARK_L, MARK_R = '#-#-#-#-#  ', '  #-#-#-#-#'
RESERVED_ANY = ['test', 'localhost', 'invalid', 'example', 'example.com', 'example.net', 'example.org']   # RFC 6761
RESERVED_SUB = ['in-addr.arpa', 'ip6.arpa', 'local']                                                    # RFC 1035/3596/6762


def doc_is_marker(line):
    return line.startswith(MARK_L) and line.endswith(MARK_R) and len(line) > len(MARK_L) + len(MARK_R) and '\n' not in line


def doc_reserved(domain):
    d = domain.lower()
    for n in RESERVED_ANY:
        if d == n or (d.endswith('.' + n) and len(d) > len(n) + 1 and '\n' not in d[:-len(n) - 1]):
            return True
    for n in RESERVED_SUB:
        if d.endswith('.' + n) and len(d) > len(n) + 1 and '\n' not in d[:-len(n) - 1]:
            return True
    return False


def doc_email_verdict(addr):
    """'none' (no address), 'reserved', 'boilerplate', 'dotless', 'ok'"""
    if '@' not in addr:
        return 'none'
    dom = addr[addr.rindex('@') + 1:]
    if doc_reserved(dom):
        return 'reserved'
    if addr == 'EMAIL@ADDRESS':
        return 'boilerplate'
    if '.' not in dom:
        return 'dotless'
    return 'ok'


def doc_rules(cap, recorded, crash):
    """returns a list of (kind, description) of documented rules that the recorded tags violate"""
    import email.utils
    import urllib.parse
    from lib import gettext
    from lib import check
    from lib import tags as T
    bad = []
    names = [n for (n, _) in recorded]

    def extras(tag, i=0):
        return sorted(str(x[i]) for (n, x) in recorded if n == tag)
    if crash is not None:
        return [('crash', 'uncaught %s in %s' % crash)]
    hs = live_header(cap)
    template = cap['template']
    if hs:
        idx, ent = hs[0]
        msgstr = entry_msgstr(ent)
        flags = ent['flags']
    else:
        idx, ent, msgstr, flags = None, None, '', []
    lines = msgstr.split('\n')
    if lines[-1] == '':
        lines.pop()
    fields, strays = [], []
    for ln in lines:
        k, sep, v = ln.partition(':')
        if sep and FTEXT.match(k):
            fields.append((k, v.strip(' \t')))
        else:
            strays.append(ln)

    def vals(f):
        return [v for (k, v) in fields if k == f]

    def expect(tag, cond, why):
        if (tag in names) != bool(cond):
            bad.append((tag, '%s is %sreported although %s' % (tag, '' if tag in names else 'not ', why)))
    # count-based rules
    for f, lc in FIELDS7.items():
        n = len(vals(f))
        if f == 'Report-Msgid-Bugs-To':
            expect('no-%s-header-field' % lc, all(v == '' for v in vals(f)), '%s occurs %d times, non-empty %d' % (f, n, sum(v != '' for v in vals(f))))
        else:
            expect('no-%s-header-field' % lc, n == 0, '%s occurs %d times' % (f, n))
        expect('duplicate-header-field-' + lc, n > 1, '%s occurs %d times' % (f, n))
        if names.count('duplicate-header-field-' + lc) > 1 or names.count('no-%s-header-field' % lc) > 1:
            bad.append(('repeat', 'count tag for %s repeated' % f))
    keys = sorted({k for (k, _) in fields})
    dedicated = check.header_fields_with_dedicated_checks
    want_dup = [k for k in keys if len(vals(k)) > 1 and k not in dedicated]
    if extras('duplicate-header-field') != want_dup:
        bad.append(('duplicate-header-field', 'reported for %r, fields occurring more than once (without a dedicated tag): %r' % (extras('duplicate-header-field'), want_dup)))
    want_unknown = [k for k in keys if k not in gettext.header_fields and not k.startswith(('X-', 'x-'))]
    if extras('unknown-header-field') != want_unknown:
        bad.append(('unknown-header-field', 'reported for %r, names neither registered nor X-prefixed: %r' % (extras('unknown-header-field'), want_unknown)))
    for (n, x) in recorded:
        if n == 'unknown-header-field' and len(x) == 3:
            if x[2] not in gettext.header_fields or x[2] in keys:
                bad.append(('unknown-header-field-hint', 'hint %r is not a registered field absent from the header' % (x[2],)))
    want_stray = sorted(s for s in strays if not doc_is_marker(s))
    if extras('stray-header-line') != want_stray:
        bad.append(('stray-header-line', 'reported %r, lines without a field name (not conflict markers): %r' % (extras('stray-header-line'), want_stray)))
    markers = [s for s in strays if doc_is_marker(s)]
    if extras('conflict-marker-in-header-entry') != markers[:1]:
        bad.append(('conflict-marker-in-header-entry', 'reported %r, conflict marker lines: %r' % (extras('conflict-marker-in-header-entry'), markers)))
    # value-shape rules
    want = sorted({v for v in vals('MIME-Version') if v != '1.0'})
    if extras('invalid-mime-version') != want:
        bad.append(('invalid-mime-version', 'reported %r, values other than 1.0: %r' % (extras('invalid-mime-version'), want)))
    want = sorted({v for v in vals('Content-Transfer-Encoding') if v != '8bit'})
    if extras('invalid-content-transfer-encoding') != want:
        bad.append(('invalid-content-transfer-encoding', 'reported %r, values other than 8bit: %r' % (extras('invalid-content-transfer-encoding'), want)))
    want = sorted({v for v in vals('Content-Type') if not re.fullmatch(r'text/plain; charset=[^\s;]+', v)})
    if extras('invalid-content-type') != want:
        bad.append(('invalid-content-type', 'reported %r, values not of the form text/plain; charset=<token>: %r' % (extras('invalid-content-type'), want)))
    def charset_token(v):      # the text after the first free-standing "charset="
        m = re.search(r'(?<!\w)charset=', v)
        return v[m.end():] if m else None
    want = sorted({v for v in vals('Content-Type') if charset_token(v) == 'CHARSET'}) if not template else []
    if extras('boilerplate-in-content-type') != want:
        bad.append(('boilerplate-in-content-type', 'reported %r, expected %r (template=%s)' % (extras('boilerplate-in-content-type'), want, template)))
    want = sorted({v for v in vals('Project-Id-Version') if v in ('PACKAGE VERSION', 'PROJECT VERSION')})
    if extras('boilerplate-in-project-id-version') != want:
        bad.append(('boilerplate-in-project-id-version', 'reported %r, expected %r' % (extras('boilerplate-in-project-id-version'), want)))
    rest = sorted({v for v in vals('Project-Id-Version') if v not in ('PACKAGE VERSION', 'PROJECT VERSION')})
    want = [v for v in rest if not any((c.isalpha() or (c.isalnum() and not c.isdecimal())) for c in v)]
    if extras('no-package-name-in-project-id-version') != want:
        bad.append(('no-package-name-in-project-id-version', 'reported %r, values without a letter: %r' % (extras('no-package-name-in-project-id-version'), want)))
    want = [v for v in rest if not any(c in '0123456789' for c in v)]
    if extras('no-version-in-project-id-version') != want:
        bad.append(('no-version-in-project-id-version', 'reported %r, values without a digit: %r' % (extras('no-version-in-project-id-version'), want)))
    # addresses
    inv, boil = [], []
    rvals = sorted(set(vals('Report-Msgid-Bugs-To')))
    if rvals == ['']:
        rvals = []
    for v in rvals:
        verdict = doc_email_verdict(email.utils.parseaddr(v)[1])
        if verdict == 'none':
            try:
                if urllib.parse.urlparse(v).scheme == '':
                    inv.append(v)
            except ValueError:
                inv.append(v)      # neither an e-mail nor a URL
        elif verdict in ('reserved', 'dotless'):
            inv.append(v)
        elif verdict == 'boilerplate':
            boil.append(v)
    if extras('invalid-report-msgid-bugs-to') != inv:
        bad.append(('invalid-report-msgid-bugs-to', 'reported %r, expected %r' % (extras('invalid-report-msgid-bugs-to'), inv)))
    if extras('boilerplate-in-report-msgid-bugs-to') != boil:
        bad.append(('boilerplate-in-report-msgid-bugs-to', 'reported %r, expected %r' % (extras('boilerplate-in-report-msgid-bugs-to'), boil)))
    inv, boil = [], []
    tr_emails = {}
    for v in sorted(set(vals('Last-Translator'))):
        addr = email.utils.parseaddr(v)[1]
        tr_emails[addr] = v
        verdict = doc_email_verdict(addr)
        if verdict in ('none', 'reserved', 'dotless'):
            inv.append(v)
        elif verdict == 'boilerplate' and not template:
            boil.append(v)
    if extras('invalid-last-translator') != inv:
        bad.append(('invalid-last-translator', 'reported %r, expected %r' % (extras('invalid-last-translator'), inv)))
    if extras('boilerplate-in-last-translator') != boil:
        bad.append(('boilerplate-in-last-translator', 'reported %r, expected %r (template=%s)' % (extras('boilerplate-in-last-translator'), boil, template)))
    inv, boil, same = [], [], []
    for v in sorted(set(vals('Language-Team'))):
        addr = email.utils.parseaddr(v)[1]
        verdict = doc_email_verdict(addr)
        if verdict == 'reserved':
            inv.append(v)
        elif addr in ('LL@li.org', 'EMAIL@ADDRESS'):
            if not template and verdict != 'none':
                boil.append(v)
        elif verdict == 'dotless':
            inv.append(v)
        elif verdict == 'ok' and addr in tr_emails:
            same.append(v)
    if extras('invalid-language-team') != inv:
        bad.append(('invalid-language-team', 'reported %r, expected %r' % (extras('invalid-language-team'), inv)))
    if extras('boilerplate-in-language-team') != boil:
        bad.append(('boilerplate-in-language-team', 'reported %r, expected %r (template=%s)' % (extras('boilerplate-in-language-team'), boil, template)))
    if extras('language-team-equal-to-last-translator') != same:
        bad.append(('language-team-equal-to-last-translator', 'reported %r, expected %r' % (extras('language-team-equal-to-last-translator'), same)))
    # header entry: position, flags, duplicates
    expect('duplicate-header-entry', len(hs) > 1, '%d live header entries' % len(hs))
    expect('distant-header-entry', hs and idx != 0, 'the header entry is entry number %s' % idx)
    expect('fuzzy-header-entry', 'fuzzy' in flags and not template, 'flags %r, template=%s' % (flags, template))
    want = sorted(set(f for f in flags if f != 'fuzzy'))
    if extras('unexpected-flag-for-header-entry') != want:
        bad.append(('unexpected-flag-for-header-entry', 'reported %r, flags other than fuzzy: %r' % (extras('unexpected-flag-for-header-entry'), want)))
    want = sorted(set(f for f in flags if flags.count(f) > 1))
    if extras('duplicate-flag-for-header-entry') != want:
        bad.append(('duplicate-flag-for-header-entry', 'reported %r, repeated flags: %r' % (extras('duplicate-flag-for-header-entry'), want)))
    expect('empty-msgid-message-with-plural-forms', hs and ent['plural'], 'msgid_plural present: %s' % (hs and ent['plural']))
    expect('empty-msgid-message-with-source-code-references', hs and ent['occ'], 'references: %r' % (hs and ent['occ'],))
    # extras that must be escaped by the printer, i.e. not safestr, when they come from the file
    for (n, x) in recorded:
        if n in NO_FIELD_HINT or n == 'unusual-character-in-header-entry':
            continue
        for i, a in enumerate(x):
            if isinstance(a, T.safestr) and not (n == 'invalid-content-type' and i == 2 and str(a) == 'text/plain; charset=<encoding>'):
                if n == 'invalid-content-type' and i == 2:
                    continue   # hint built from an encoding name the codec registry accepted
                bad.append(('safestr', '%s passes file text through safestr: %r' % (n, str(a))))
    return bad


def doc_clean(cap):
    """a header that follows every convention (the oracle's own criteria, deliberately conservative)"""
    import email.utils
    from lib import gettext
    hs = live_header(cap)
    if len(hs) != 1 or hs[0][0] != 0:
        return False
    e = hs[0][1]
    if e['flags'] or e['occ'] or e['plural']:
        return False
    msgstr = entry_msgstr(e)
    if not msgstr.endswith('\n') or any(ord(c) < 32 and c != '\n' or 127 <= ord(c) < 160 or c in '\xbf﻿�￾￿' for c in msgstr):
        return False
    fields = []
    for ln in msgstr[:-1].split('\n'):
        k, sep, v = ln.partition(': ')
        if not sep or not FTEXT.match(k) or v != v.strip(' \t'):
            return False
        fields.append((k, v))
    keys = [k for k, _ in fields]
    if len(set(keys)) != len(keys) or any(k not in gettext.header_fields and not k.startswith('X-') for k in keys):
        return False
    d = dict(fields)
    if any(f not in d for f in FIELDS7):
        return False
    if d['MIME-Version'] != '1.0' or d['Content-Transfer-Encoding'] != '8bit' or d['Content-Type'] not in ('text/plain; charset=UTF-8',):
        return False
    if not re.fullmatch(r'[A-Za-z][A-Za-z -]* [0-9][0-9.]*', d['Project-Id-Version']):
        return False
    okaddr = r'[a-z0-9.-]+@[a-z0-9-]+(\.[a-z0-9-]+)*\.(net|org|de|pl)'
    if not re.fullmatch(okaddr, d['Report-Msgid-Bugs-To']) and not re.fullmatch(r'https://[a-z.]+\.(net|org)/[a-z/]*', d['Report-Msgid-Bugs-To']):
        return False
    m1 = re.fullmatch(r'[A-Za-z ]+ <(%s)>' % okaddr, d['Last-Translator'])
    m2 = re.fullmatch(r'[A-Za-z ]+ <(%s)>' % okaddr, d['Language-Team'])
    if not m1 or not m2 or m1.group(1) == m2.group(1) or m2.group(1) == 'LL@li.org':
        return False
    for a in (d['Report-Msgid-Bugs-To'], m1.group(1), m2.group(1)):
        if '@' in a and doc_reserved(a.rsplit('@', 1)[1]):
            return False
    comment = cap['comment'] or ''
    if any(w in comment for w in ('PACKAGE', 'YEAR', 'FIRST AUTHOR', 'EMAIL@ADDRESS')) or any(ord(c) > 126 for c in comment):
        return False
    return True


# ---------------------------------------------------------------- generators
GOOD = {
    'Project-Id-Version': ['Gizmo Enhancer 1.0', 'foo 2', 'gizmo-3.1'],
    'Report-Msgid-Bugs-To': ['gizmoenhancer@jwilk.net', 'https://bugs.jwilk.net/gizmo', 'bugs@lists.debian.org'],
    'POT-Creation-Date': ['2012-11-01 14:42+0100'],
    'PO-Revision-Date': ['2012-11-01 14:42+0100'],
    'Last-Translator': ['Jakub Wilk <jwilk@jwilk.net>', 'A Translator <a.translator@mail.uni-foo.de>'],
    'Language-Team': ['Polish <debian-l10n-polish@lists.debian.org>', 'German <debian-l10n-german@lists.debian.org>'],
    'Language': ['pl', 'de'],
    'MIME-Version': ['1.0'],
    'Content-Type': ['text/plain; charset=UTF-8'],
    'Content-Transfer-Encoding': ['8bit'],
    'Plural-Forms': ['nplurals=3; plural=n==1 ? 0 : n%10>=2 && n%10<=4 && (n%100<10 || n%100>=20) ? 1 : 2;', 'nplurals=2; plural=n != 1;'],
    'Generated-By': ['pygettext.py 1.5'],
}
BOILER = {
    'Project-Id-Version': ['PACKAGE VERSION', 'PROJECT VERSION'],
    'Report-Msgid-Bugs-To': ['EMAIL@ADDRESS', '', 'FULL NAME <EMAIL@ADDRESS>'],
    'Last-Translator': ['FULL NAME <EMAIL@ADDRESS>', 'EMAIL@ADDRESS'],
    'Language-Team': ['LANGUAGE <LL@li.org>', 'LANGUAGE <EMAIL@ADDRESS>', 'LL@li.org'],
    'Content-Type': ['text/plain; charset=CHARSET'],
    'PO-Revision-Date': ['YEAR-MO-DA HO:MI+ZONE'],
    'Language': [''],
    'Plural-Forms': ['nplurals=INTEGER; plural=EXPRESSION;'],
}
ADDR_NEAR = [
    'user@localhost', 'a@b.example.org', 'a@example.com', 'a@EXAMPLE.COM', 'x@foo.test', 'x@test', 'x@1.0.0.127.in-addr.arpa',
    'x@in-addr.arpa', 'x@1.ip6.arpa', 'x@host.local', 'x@local', 'x@dotless', 'a@b@c.org', 'a@b.org, c@d.org', 'x@exİmple.com',
    'x@b\xfccher.de', 'x@xn--bcher-kva.de', 'x@foo.K.example', 'a@.', 'a@', '@', '@b.org', 'x@foo.invalid.', 'x@example.org.', 'x@TEST',
    'x@İnvalid', 'x@foo.LOCAL', 'x@foo.locale', 'x@contest', 'x@myexample.com', 'x@example.edu', 'x@a.example', 'x@.test', 'x@..local',
    'EMAIL@address', 'email@ADDRESS', 'x@examplΕΣ', 'x@Σ.test', 'x@TEſT', 'x@li.org', 'll@li.org',
]
NEAR = {
    'Project-Id-Version': ['PACKAGE VERSION ', 'package version', '1.0', 'gizmo', '', '___ 1', '٣ x', '\xe9', '\xb2', 'Ⅷ', '_', '-', 'PACKAGE 1.0',
                           'PROJECT  VERSION', '٣', '9', 'a1', '¹²'],
    'Report-Msgid-Bugs-To': ADDR_NEAR + ['foo', 'http://[foo', 'http://[::1]/', '//[foo', 'http://a]b', 'www.example.org', 'mailto:a@b.org', 'mailto:x@localhost',
                                          'A <a@b.org>', '<a@b.org', ' ', 'http://example.org/', 'x:', ':', 'ftp://ftp.example.org/', 'a b', 'http://[foo]/', 'HTTP://X',
                                          'https://bugs.debian.org/src:gizmo', '1http://x', 'bugs.debian.org'],
    'Last-Translator': ['A B <%s>' % a for a in ADDR_NEAR] + ['A B', 'A B <>', '<a@b.org>', 'a@b.org', 'A B <a@b.org> ', 'A B (a@b.org)', 'A B <a at b.org>',
                                                                '"A, B" <a@b.org>', 'A B <a@b.org>, C D <c@d.org>', ''],
    'Language-Team': ['T <%s>' % a for a in ADDR_NEAR] + ['Polish', 'Polish <jwilk@jwilk.net>', 'T <a.translator@mail.uni-foo.de>', 'Polish <jwilk@jwilk.net>', 'https://l10n.example.org/', 'Polish <jwilk@jwilk.net>', 'Polish <JWILK@jwilk.net>', 'T <a.translator@mail.uni-foo.de>',
                                                            'none', '', 'LANGUAGE <ll@li.org>', 'Polish <LL@li.org>'],
    'MIME-Version': ['1.0 ', ' 1.0', '1.0\r', '1', '1.00', '01.0', '1.0;', '', '1.0\xa0', '1,0', '1.0 (x)', '2.0', '1.0\t'],
    'Content-Transfer-Encoding': ['8BIT', '7bit', '8 bit', '8bit ', 'binary', '', '8bit\r', 'base64', '8bits', '8-bit'],
    'Content-Type': ['text/plain;charset=UTF-8', 'text/plain; charset=UTF-8 ', 'text/plain;  charset=UTF-8', 'text/plain; charset=UTF-8;', 'Text/Plain; charset=UTF-8',
                     'text/plain; charset="UTF-8"', 'charset=UTF-8', 'text/html; charset=UTF-8', 'text/plain', '', 'text/plain; charset=', 'text/plain; xcharset=UTF-8',
                     'text/plain; x-charset=UTF-8', 'text/plain; charset=UTF-8 charset=ISO-8859-1', 'text/plain; charset=a\xa0b', 'text/plain; charset=UTF-8\r',
                     'text/plain; charset=UTF—8', 'text/plain;charset=X', 'text/plain; charset=X', 'text/plain; charset=utf-8', 'text/plain; charset=UTF8',
                     'text/plain; charset=ISO-8859-2', 'text/plain; charset=ISO_8859-2', 'text/plain; charset=latin2', 'text/plain; charset=KOI8-T', 'text/plain; charset=UTF-7',
                     'text/plain; charset=UTF-16', 'text/plain; charset=ISO-8859-16', 'text/plain; charset=cp1250', 'text/plain; charset=windows-1252', 'text/plain; charset=IBM850',
                     'text/plain; charset=EUC-KR', 'text/plain; charset=ASCII', 'text/plain; charset=US-ASCII', 'text/plain; charset=ANSI_X3.4-1968', 'text/plain; charset=KOI8-RU',
                     'text/plain; charset=GEORGIAN-PS', 'text/plain; charset=CHARSET;', 'text/plain;charset=CHARSET', 'charset=CHARSET', 'text/plain; charset=charset=CHARSET',
                     'text/plain; charset=\xe9', 'application/x-publican; charset=UTF-8', 'text/plain; charset=ISO-8859-1', 'text/plain; charset=hex', 'text/plain; charset=rot13',
                     'text/plain; charset=İSO-8859-1', '\xe9charset=UTF-8', '_charset=UTF-8', '-charset=UTF-8', 'text/plain; charset=UTF-8 ', 'text/plain; charset=mbcs',
                     'text/plain; charset=undefined', 'text/plain; charset=EBCDIC-US', 'text/plain; charset=cp037', 'text/plain; charset=TIS-620', 'text/plain; charset=VISCII'],
    'POT-Creation-Date': ['2012-11-01 14:42', ''],
    'PO-Revision-Date': ['2012-11-01', 'yesterday'],
    'Language': ['pl_PL', 'xx', 'Polish'],
    'Plural-Forms': ['nplurals=2; plural=n>1', 'nplurals=1; plural=0;'],
}
UNKNOWN_KEYS = ['Foo', 'Langauge', 'language', 'Project-ID-Version', 'Content-type', 'X-Generator', 'x-foo', 'X', 'x', 'Xfoo', 'X-Poedit-Language', 'MIME-version',
                'Last-Translater', 'PO-Revision-date', 'X-', 'x-', 'Report-Msgid-Bugs-To ', 'LANGUAGE', 'Language-Teams', 'Generated-by', 'Plural-Form', 'X_Foo', '-X-', 'a',
                'Content-Transfer-Encodin', 'POT-Creation-Dat', 'PO-Creation-Date', '!', '~', 'X-Poedit-Country']
STRAYS = ['foo', ' continuation', 'Bad Key: v', ': v', '\xe9: x', '#-#-#-#-#  a.po  #-#-#-#-#', '#-#-#-#-#    #-#-#-#-#', '#-#-#-#-#     #-#-#-#-#', '#-#-#-#-#  x: y  #-#-#-#-#',
          '#-#-#-#-#  b.po (Gizmo 1.0)  #-#-#-#-#', ' #-#-#-#-#  a  #-#-#-#-#', '#-#-#-#-#  a  #-#-#-#-# ', '#-#-#-#-# a #-#-#-#-#', '', ' ', '\t', 'Key\t: v', 'K\x7f: v', 'K y:z',
          'text/plain; charset=UTF-8', '#-#-#-#-#  a  #-#-#-#-#  #-#-#-#-#', 'nocolon\r']
FLAGSETS = [[], [], [], [], ['fuzzy'], ['fuzzy', 'fuzzy'], ['fuzy'], ['Fuzzy'], ['c-format'], ['FUZZY'], ['fuzzy', 'no-wrap', 'no-wrap'], ['fuzz'], ['fuzzyy'], ['FUZſY'],
            ['fuzzy', 'fuzzy', 'fuzzy'], ['no-c-format', 'fuzzy'], ['fuzzy '], ['fuuzzy', 'fuuzzy'], ['fu', 'zy'], ['range:1..2']]
COMMENTS_GOOD = ['Polish translation of Gizmo Enhancer', 'Copyright (C) 2012 Jakub Wilk <jwilk@jwilk.net>',
                 'This file is distributed under the same license as the Gizmo Enhancer package.', 'Jakub Wilk <jwilk@jwilk.net>, 2012.', '']
COMMENTS_BAD = ['SOME DESCRIPTIVE TITLE.', "Copyright (C) YEAR THE PACKAGE'S COPYRIGHT HOLDER", 'This file is distributed under the same license as the PACKAGE package.',
                'FIRST AUTHOR <EMAIL@ADDRESS>, YEAR.', 'Copyright (C) 2012 YEAR', 'Copyright  YEAR', 'Copyright \xa9 YEAR', 'Copyright (C) YEARS', 'xCopyright (C) YEAR', 'Copyright (C)  YEAR',
                'xFIRST AUTHOR', 'FIRST AUTHORS', 'FIRST AUTHOR', 'A <a@b.org>, YEAR', 'a, YEAR', '>, YEAR', '>, YEAR2', 'PACKAGE packages', 'PACKAGE package', 'xPACKAGE package',
                '<EMAIL@ADDRESS>', 'EMAIL@ADDRESS', '-FIRST AUTHOR-', '\xe9FIRST AUTHOR', '_FIRST AUTHOR', "THE PACKAGE'S COPYRIGHT HOLDER", "THE PACKAGE'S COPYRIGHT HOLDERS",
                'Copyright a b YEAR', 'Copyright a\x0bYEAR YEAR', 'line one\x0cFIRST AUTHOR', 'Copyright (C) YEAR\x85', 'Copyright 　x YEAR', 'Copyright x  YEAR']
UNUSUAL = ['\x1b[1m', '\x1b', '\x7f', '\x85', '﻿', 'a\xbf', ' \xbf', '\x01', '\x1a', '\x1c', '\x9f', '\xa0', '�', '￾', '\x1b\x1b[', '_\xbf', '\xe9\xbf', '\x0b', '\x0c', '\x1f', '\x08']


def pick_value(rng, f, p_good=0.55):
    r = rng.random()
    if r < p_good or (f not in NEAR and f not in BOILER):
        return rng.choice(GOOD.get(f, ['v']))
    if r < p_good + 0.15 and f in BOILER:
        return rng.choice(BOILER[f])
    if f in NEAR:
        return rng.choice(NEAR[f])
    return rng.choice(GOOD.get(f, ['v']))


def gen_header(rng, clean_bias=False):
    """list of raw header lines (without the trailing LF)"""
    order = list(GOOD)
    if 'Generated-By' in order and rng.random() < 0.7:
        order.remove('Generated-By')
    lines = []
    if clean_bias:
        for f in order:
            lines.append(f + ': ' + rng.choice(GOOD[f]))
        if rng.random() < 0.5:
            lines.append('X-Generator: ' + rng.choice(['gizmo 1', 'Poedit 3']))
        if rng.random() < 0.5:
            rng.shuffle(lines)
        return lines
    for f in order:
        r = rng.random()
        n = 0 if r < 0.10 else (1 if r < 0.85 else (2 if r < 0.97 else 3))
        for _ in range(n):
            v = pick_value(rng, f)
            if n > 1 and rng.random() < 0.4 and lines and lines[-1].startswith(f + ':'):
                lines.append(lines[-1])        # identical duplicate
                continue
            sep = rng.choice([': ', ': ', ': ', ':', ':  ', ':\t', ' : '] if rng.random() < 0.1 else [': '])
            lines.append(f + sep + v + rng.choice(['', '', '', '', ' ', '\t']))
    for _ in range(rng.choice([0, 0, 0, 1, 1, 2])):
        k = rng.choice(UNKNOWN_KEYS)
        lines.append(k + ': ' + rng.choice(['v', 'Poedit 3.0', '', 'pl']))
        if rng.random() < 0.2:
            lines.append(k + ': w')
    for _ in range(rng.choice([0, 0, 0, 0, 1, 2])):
        lines.append(rng.choice(STRAYS))
    if rng.random() < 0.08:
        i = rng.randrange(len(lines)) if lines else 0
        if lines:
            lines[i] = lines[i] + rng.choice(UNUSUAL)
    if rng.random() < 0.6:
        rng.shuffle(lines)
    return lines


def gen_case(rng, idx, kind):
    clean = rng.random() < 0.12
    lines = gen_header(rng, clean_bias=clean)
    r = rng.random()
    if r < 0.03:
        msgstr = ''
    elif r < 0.08 and lines:
        msgstr = '\n'.join(lines)              # no final newline
    else:
        msgstr = ''.join(l + '\n' for l in lines)
    flags = [] if clean else list(rng.choice(FLAGSETS))
    comments = list(COMMENTS_GOOD[:3]) if rng.random() < 0.7 else []
    if not clean and rng.random() < 0.25:
        for _ in range(rng.choice([1, 1, 2])):
            comments.insert(rng.randrange(len(comments) + 1), rng.choice(COMMENTS_BAD))
    shape = 'first' if clean else rng.choice(['first'] * 8 + ['distant', 'absent', 'dup', 'obsolete-only', 'ctxt', 'plural', 'refs', 'dup-distant', 'obsolete-first'])
    return {'idx': idx, 'kind': kind, 'msgstr': msgstr, 'flags': flags, 'comments': comments, 'shape': shape}


def render_po(c):
    """PO text for a generated case (pogen.render for the common shapes, entry-level rendering for the others)"""
    hdr_entry = {'msgid': '', 'msgstr': c['msgstr'], 'flags': c['flags'] or None}
    other = {'msgid': 'A quick brown fox jumps over the lazy dog.', 'msgstr': 'Polish text.'}
    other2 = {'msgid': 'Another message.', 'msgstr': 'Another translation.'}
    shape = c['shape']
    hdr2 = {'msgid': '', 'msgstr': 'Project-Id-Version: second 1\n'}
    if shape == 'first':
        cat = {'header_comments': c['comments'], 'header_flags': c['flags'], 'header_raw': c['msgstr'], 'entries': [other, other2]}
        return pogen.render(cat)
    if shape == 'distant':
        es = [other, hdr_entry, other2]
    elif shape == 'absent':
        es = [other, other2]
    elif shape == 'dup':
        es = [hdr_entry, other, hdr2]
    elif shape == 'dup-distant':
        es = [other, hdr_entry, hdr2, dict(hdr2)]
    elif shape == 'obsolete-only':
        es = [other, dict(hdr_entry, obsolete=True)]
    elif shape == 'obsolete-first':
        es = [hdr_entry, other, dict(hdr2, obsolete=True)]
    elif shape == 'ctxt':
        es = [dict(hdr_entry, msgctxt='c'), other]
    elif shape == 'plural':
        es = [{'msgid': '', 'msgid_plural': '', 'msgstr_plural': [c['msgstr'], 'x'], 'flags': c['flags'] or None}, other]
    elif shape == 'refs':
        es = [dict(hdr_entry, refs=['a.c:10', 'b/c.py:7']), other]
    else:
        raise ValueError(shape)
    L = []
    for cm in c['comments']:
        L.append('# ' + pogen.comment_safe(cm) if cm else '#')
    if c['comments']:
        L.append('')                      # a blank line keeps the initial comments apart from the first entry
    for e in es:
        L += pogen.render_entry(e)
        L.append('')
    return '\n'.join(L) + '\n'


def fake_cat(c, template):
    hdr_entry = {'msgid': '', 'msgstr': c['msgstr'], 'flags': c['flags']}
    other = {'msgid': 'A quick brown fox.', 'msgstr': 'x'}
    shape = c['shape']
    hdr2 = {'msgid': '', 'msgstr': 'Project-Id-Version: second 1\n'}
    es = {
        'first': [hdr_entry, other], 'distant': [other, hdr_entry], 'absent': [other], 'dup': [hdr_entry, other, hdr2],
        'dup-distant': [other, hdr_entry, hdr2, dict(hdr2)], 'obsolete-only': [other, dict(hdr_entry, obsolete=True)],
        'obsolete-first': [hdr_entry, other, dict(hdr2, obsolete=True)], 'ctxt': [dict(hdr_entry, msgctxt='c'), other],
        'plural': [dict(hdr_entry, plural=True), other], 'refs': [dict(hdr_entry, occ=[('a.c', '10'), ('b/c.py', '7')]), other],
    }[shape]
    if shape == 'plural' and c['idx'] % 3 == 0:
        es[0]['plural0'] = False
    if shape == 'first' and c['idx'] % 17 == 0:
        es[0]['msgstr'] = None
    return {'entries': es, 'comment': '\n'.join(c['comments']), 'template': template}


def prepare(c):
    """generated case -> payload for run_case"""
    kind = c['kind']
    if kind in ('po', 'pot'):
        return {'kind': kind, 'idx': c['idx'], 'text': render_po(c)}
    if kind == 'mo':
        try:
            data = mo_bytes([(b'', c['msgstr'].encode('utf-8', 'surrogateescape'))] + ([(b'A quick brown fox.', b'x')] if c['shape'] != 'absent' else []))
        except UnicodeEncodeError:
            data = mo_bytes([(b'', b'')])
        if c['shape'] == 'absent':
            data = mo_bytes([(b'A quick brown fox.', b'x')])
        return {'kind': 'mo', 'idx': c['idx'], 'data': data}
    return {'kind': kind, 'idx': c['idx'], 'cat': fake_cat(c, template=(kind == 'ctx-pot'))}


def run_batch(batch):
    """worker: run the implementation on every case, build the model lines, run the driver, judge"""
    out = []
    results = []
    lines = []
    for c in batch:
        payload = prepare(c)
        try:
            r = run_case(payload)
        except Exception as e:  # noqa
            r = {'skipped': ['harness-error ' + repr(e)[:200]], 'crash': None}
        results.append(r)
        if 'cap' in r:
            try:
                lines.append(model_line(r['cap'], r.get('lang')))
            except Exception as e:  # noqa
                lines.append('harness-error ' + repr(e)[:200])
    model = common.run_driver(lines) if lines else []
    mi = 0
    for c, r in zip(batch, results):
        if 'cap' not in r:
            out.append({'case': c, 'skipped': r['skipped'], 'crash': r.get('crash')})
            continue
        m = model[mi]
        line = lines[mi]
        mi += 1
        impl = canon_result(r)
        crash = r.get('crash')
        foreign_crash = crash is not None and crash[1] not in MODELLED_METHODS
        try:
            viol = [] if foreign_crash else doc_rules(r['cap'], r['tags'], crash)
            clean = (not foreign_crash) and doc_clean(r['cap'])
        except Exception as e:  # noqa
            viol, clean = [('oracle-error', repr(e)[:300])], False
        if clean and r['tags'] and crash is None:
            viol.append(('clean-not-silent', 'a header following every convention yields %r' % [n for (n, _) in r['tags']]))
        out.append({'case': c, 'model': m, 'impl': impl, 'crash': crash, 'foreign_crash': foreign_crash, 'viol': viol, 'clean': clean,
                    'unknown': r.get('unknown'), 'ntags': len(r['tags']), 'names': [n for (n, _) in r['tags']],
                    'line': line if m != impl else None,
                    'hdr': entry_msgstr(live_header(r['cap'])[0][1]) if live_header(r['cap']) else None,
                    'template': r['cap']['template']})
    return out


# ---------------------------------------------------------------- component streams (function level)
def impl_special(d):
    from lib import domains
    return '1' if domains.is_special_domain(d) else '0'


def impl_parse(s):
    from lib import gettext
    out = []
    for x in gettext.parse_header(s):
        if isinstance(x, dict):
            [(k, v)] = x.items()
            out.append('f %s %s' % (enc_str(k), enc_str(v)))
        else:
            out.append('x ' + enc_str(x))
    return ' '.join(out)


def impl_conflict(s):
    from lib import gettext
    return '1' if gettext.search_for_conflict_marker(s) else '0'


def impl_unusual(s):
    from lib import check
    return enc_str(''.join(sorted(set(check.find_unusual_characters(s)))))


def impl_splitlines(s):
    return ' '.join(enc_str(x) for x in s.splitlines())


def impl_sort(ss):
    return ' '.join(enc_str(x) for x in sorted(set(ss)))


def component_cases(ctx):
    import itertools
    rng = ctx.rng
    req = {'special': [], 'parse': [], 'conflict': [], 'unusual': [], 'splitlines': [], 'sort': []}
    labels = ['', 'a', 'test', 'localhost', 'invalid', 'example', 'com', 'net', 'org', 'local', 'in-addr', 'ip6', 'arpa', 'xtest', 'examples', '\n', 'TEST', 'edu']
    k = 3 if ctx.quick() else 4
    for n in range(1, k + 1):
        for seq in itertools.product(labels, repeat=n):
            d = '.'.join(seq)
            if d == d.lower():
                req['special'].append(d)       # the model function takes the lowercased domain
    alpha = ['A', ':', ' ', '\t', '\n', 'b', '\x7f', '!', '\xe9', '\r']
    for n in range(0, (4 if ctx.quick() else 6) + 1):
        for seq in itertools.product(alpha, repeat=n):
            req['parse'].append(''.join(seq))
    calpha = ['#-#-#-#-#', ' ', '  ', 'x', ':', '#', '-']
    for n in range(0, (5 if ctx.quick() else 6) + 1):
        for seq in itertools.product(calpha, repeat=n):
            req['conflict'].append(''.join(seq))
    ualpha = ['a', '\x1b', '[', '\xbf', '_', ' ', '\x00', '\x09', '\x0a', '\x0b', '\x1a', '\x1c', '\x7f', '\x80', '\x9f', '\xa0', '﻿', '�', '￿', '\xe9', '0']
    for n in range(0, 3 + 1):
        for seq in itertools.product(ualpha, repeat=n):
            req['unusual'].append(''.join(seq))
    salpha = ['a', '\n', '\r', '\x0b', '\x0c', '\x1c', '\x1d', '\x1e', '\x85', ' ', ' ', '\x1f', ' ']
    for n in range(0, (4 if ctx.quick() else 5) + 1):
        for seq in itertools.product(salpha, repeat=n):
            req['splitlines'].append(''.join(seq))
    words = ['', 'a', 'b', 'ab', 'A', 'a ', '\xe9', 'aa', 'B', '\U00010000', '￿']
    for n in range(0, 4 + 1):
        for seq in itertools.product(words, repeat=n):
            req['sort'].append(list(seq))
    for _ in range(2000 if ctx.quick() else 50000):
        req['unusual'].append(''.join(rng.choice(ualpha) for _ in range(rng.randrange(4, 12))))
    return req


# ---------------------------------------------------------------- the check
def check(ctx):
    build = common.coq_build()
    aud = common.audit(ctx.id, coqchk=not ctx.quick())
    rng = ctx.rng
    # ---- (a) component correspondences
    comp = component_cases(ctx)
    ops = {'special': ('hdr_special', 'impl_special'), 'parse': ('hdr_parse', 'impl_parse'), 'conflict': ('hdr_conflict', 'impl_conflict'),
           'unusual': ('hdr_unusual', 'impl_unusual'), 'splitlines': ('hdr_splitlines', 'impl_splitlines')}
    for key, (op, fn) in ops.items():
        req = [(op + ' ' + enc_str(s), s) for s in comp[key]]
        res = common.compare_parallel('harness.c15', fn, req)
        ctx.evaluations += len(res)
        ctx.count('component:' + key, len(res))
        for (line, payload, m, r) in res:
            if m != r:
                ctx.disagree(op, {'input': repr(payload)}, m, r)
            if r not in ('0', '', 's'):
                ctx.nontriv((key, payload))
    req = [('hdr_sort ' + ' '.join(enc_str(x) for x in ss), ss) for ss in comp['sort']]
    res = common.compare_parallel('harness.c15', 'impl_sort', req)
    ctx.evaluations += len(res)
    for (line, payload, m, r) in res:
        if m != r:
            ctx.disagree('hdr_sort', {'input': repr(payload)}, m, r)
    # ---- (b) generated headers through the real checker
    n = 2000 if ctx.quick() else 50000
    kinds = ['po'] * 5 + ['pot'] * 3 + ['mo'] * 1 + ['ctx'] * 1 + ['ctx-pot'] * 1 + ['mo-ctx'] * 1
    cases = [gen_case(rng, i, rng.choice(kinds)) for i in range(n)]
    cases += corpus_cases(len(cases))
    shutil.rmtree(os.path.join(common.WORK, 'c15'), ignore_errors=True)
    bs = 40
    batches = [cases[i:i + bs] for i in range(0, len(cases), bs)]
    outs = common.pmap('harness.c15', 'run_batch', batches, per_case_timeout=600)
    shutil.rmtree(os.path.join(common.WORK, 'c15'), ignore_errors=True)
    nclean = 0
    for b, o in zip(batches, outs):
        if not isinstance(o, list):
            ctx.count('batch:' + str(o))
            ctx.disagree('hdr', {'batch_first_idx': b[0]['idx']}, 'batch failed', str(o))
            continue
        for r in o:
            c = r['case']
            ctx.count('kind:' + c['kind'])
            ctx.count('shape:' + c['shape'])
            if 'skipped' in r:
                ctx.count('skipped:' + str(r['skipped'][0])[:40])
                if r.get('crash') and r['crash'][1] in MODELLED_METHODS:
                    ctx.fail('crash', {'case': c}, 'uncaught %s in %s' % r['crash'])
                continue
            ctx.evaluations += 1
            desc = {'kind': c['kind'], 'shape': c['shape'], 'flags': c['flags'], 'comments': c['comments'], 'header_entry_msgstr': r['hdr'], 'template': r['template']}
            if r['unknown']:
                ctx.fail('unknown-tag', desc, 'tag not in the registry: %r' % r['unknown'])
            if r['foreign_crash']:
                ctx.count('crash-outside-modelled-methods:%s:%s' % r['crash'])    # C01 / other properties
                continue
            for nm in r['names']:
                ctx.count('tag:' + nm)
            if r['ntags']:
                ctx.nontriv(('hdr', r['impl']))
            if r['clean']:
                nclean += 1
            if r['model'] != r['impl']:
                ctx.disagree('hdr', dict(desc, request=(r['line'] or '')[:3000]), r['model'][:1500], r['impl'][:1500])
            for (kind, what) in r['viol']:
                if kind == 'crash':
                    ctx.fail('crash', desc, what)
                    ctx.count('crash-in-modelled-methods')
                else:
                    ctx.fail('rule-' + kind, desc, what)
    ctx.count('clean_headers', nclean)
    ctx.samples = [{'kind': c['kind'], 'shape': c['shape'], 'msgstr': c['msgstr'][:300], 'flags': c['flags']} for c in cases[:6]]
    return common.finish(
        ctx, 'proof', build, aud, TRUSTED, ASSUME,
        checker_cmd='tools/build.sh (coq_makefile + make: coqc on Props/C15.v, incl. vm_compute over the regenerated field / domain / character-class tables) then coqc Audit_C15.v',
        rule='(a) component scanners vs the real functions: special domains on all dot-joined label sequences (length <= %d over 18 labels), parse_header, conflict marker, '
             'find_unusual_characters, str.splitlines, sorted(set()) on small-scope exhaustive strings; (b) %d generated headers (any subset / multiplicity / order of the registered fields, '
             'unknown and X- fields, stray lines, conflict markers; values from per-field good / boilerplate / near-miss lists; header-entry flags; position first / distant / absent / duplicate / '
             'obsolete / msgctxt / plural / references; initial comments with boilerplate near-misses; kinds po, pot, mo as real files through Checker.check, and constructed contexts) : '
             'the recorded tags of the five modelled methods, in order, with extras == the extracted model on the catalog as polib delivered it; '
             'oracle: the documented rules (counts, value shapes, reserved domains, flags, position, POT exemptions, clean => silent, no uncaught exception) re-stated in Python on the recorded tags. '
             'non-trivial = distinct non-empty diagnostic list' % (3 if ctx.quick() else 4, n))


def corpus_cases(start):
    """fixed cases that are always run: the pogen base header in every kind, a value urlparse rejects (former D13), boundary shapes"""
    out = []
    base = ''.join('%s: %s\n' % kv for kv in pogen.base_header())
    i = start
    for kind in ('po', 'pot', 'mo', 'ctx', 'ctx-pot', 'mo-ctx'):
        for msgstr in (base, base.replace('gizmoenhancer@jwilk.net', 'http://[foo'), '', 'MIME-Version: 1.0 \n', base + base,
                       base.replace('Content-Type: text/plain; charset=UTF-8', 'Content-Type: text/plain;charset=UTF-8'),
                       base.replace('jwilk@jwilk.net>', 'user@localhost>'), base.replace('X', 'Y') + 'x-foo: 1\nX-Foo: 2\nFoo: 3\n'):
            out.append({'idx': i, 'kind': kind, 'msgstr': msgstr, 'flags': [], 'comments': list(COMMENTS_GOOD[:3]), 'shape': 'first'})
            i += 1
    return out
